package sqlgen

import (
	"strconv"
	"strings"

	"github.com/ajitpratap0/GoSQLX/pkg/sql/ast"
)

// S is a generated statement.
type S struct {
	Toks  []Tok
	N     ast.Statement
	Feat  []string
	Names []Name
	Kind  string
}

// TableRef is one item of a FROM list or a join operand.
type TableRef struct {
	Schema  string
	Name    string
	Alias   string
	AsKw    bool
	Sub     *S // derived table (must be a plain SELECT)
	Lateral bool
}

func (t TableRef) toks() []Tok {
	var out []Tok
	if t.Lateral {
		out = append(out, kw("LATERAL"))
	}
	if t.Sub != nil {
		out = cat(out, paren(t.Sub.Toks))
	} else {
		if t.Schema != "" {
			out = append(out, pt(t.Schema), pt("."))
		}
		out = append(out, pt(t.Name))
	}
	if t.Alias != "" {
		if t.AsKw {
			out = append(out, kw("AS"))
		}
		out = append(out, pt(t.Alias))
	}
	return out
}

func (t TableRef) ast() ast.TableReference {
	r := ast.TableReference{Alias: t.Alias, Lateral: t.Lateral}
	if t.Sub != nil {
		r.Subquery = t.Sub.N.(*ast.SelectStatement)
	} else {
		r.Name = t.Name
		if t.Schema != "" {
			r.Name = t.Schema + "." + t.Name
		}
	}
	return r
}

func (t TableRef) feat(where string) []string {
	var f []string
	if t.Sub != nil {
		f = append(f, where+".derived", "expr.subquery-body:"+t.Sub.Kind)
		f = append(f, t.Sub.Feat...)
	}
	if t.Schema != "" {
		f = append(f, where+".schema-qualified")
	}
	if t.Alias != "" {
		if t.AsKw {
			f = append(f, where+".alias-as")
		} else {
			f = append(f, where+".alias")
		}
	}
	if t.Lateral {
		f = append(f, where+".lateral")
	}
	return f
}

func (t TableRef) names() []Name {
	var n []Name
	if t.Sub != nil {
		n = append(n, t.Sub.Names...)
	} else {
		n = append(n, Name{Role: "table", Name: t.Name, Qual: t.Schema})
	}
	if t.Alias != "" {
		n = append(n, Name{Role: "alias", Name: t.Alias})
	}
	return n
}

// Join is one JOIN clause.
type Join struct {
	Kw    string // "JOIN", "INNER JOIN", "LEFT JOIN", "LEFT OUTER JOIN", ... "CROSS JOIN", "NATURAL JOIN", "NATURAL LEFT JOIN"
	Right TableRef
	On    *X
	Using []string
}

func joinType(kwd string) string {
	k := strings.TrimSuffix(kwd, " JOIN")
	if k == "JOIN" {
		k = ""
	}
	k = strings.ReplaceAll(k, " OUTER", "")
	nat := false
	if strings.HasPrefix(k, "NATURAL") {
		nat = true
		k = strings.TrimSpace(strings.TrimPrefix(k, "NATURAL"))
	}
	if k == "" {
		k = "INNER"
	}
	if nat {
		return "NATURAL " + k
	}
	return k
}

// SelItem is one select-list element.
type SelItem struct {
	X     X
	Alias string
	AsKw  bool
}

// Fetch is the FETCH FIRST clause.
type Fetch struct {
	Type     string // FIRST | NEXT
	N        int64
	Percent  bool
	WithTies bool
	Rows     string // ROW | ROWS
}

// For is the locking clause.
type For struct {
	Lock       string // UPDATE | SHARE | NO KEY UPDATE | KEY SHARE
	Of         []string
	NoWait     bool
	SkipLocked bool
}

// CTE is one common table expression.
type CTE struct {
	Name         string
	Cols         []string
	Body         S
	Materialized string // "", "MATERIALIZED", "NOT MATERIALIZED"
}

// With is a WITH clause.
type With struct {
	Recursive bool
	CTEs      []CTE
}

func (w *With) toks() []Tok {
	t := kws("WITH")
	if w.Recursive {
		t = append(t, kw("RECURSIVE"))
	}
	for i, c := range w.CTEs {
		if i > 0 {
			t = append(t, pt(","))
		}
		t = append(t, pt(c.Name))
		if len(c.Cols) > 0 {
			t = cat(t, paren(identList(c.Cols)))
		}
		t = append(t, kw("AS"))
		if c.Materialized != "" {
			t = cat(t, kws(c.Materialized))
		}
		t = cat(t, paren(c.Body.Toks))
	}
	return t
}

func (w *With) ast() *ast.WithClause {
	wc := &ast.WithClause{Recursive: w.Recursive}
	for _, c := range w.CTEs {
		e := &ast.CommonTableExpr{Name: c.Name, Columns: c.Cols, Statement: c.Body.N}
		if c.Materialized != "" {
			b := c.Materialized == "MATERIALIZED"
			e.Materialized = &b
		}
		wc.CTEs = append(wc.CTEs, e)
	}
	return wc
}

func (w *With) feat() []string {
	f := []string{"with"}
	if w.Recursive {
		f = append(f, "with.recursive")
	}
	if len(w.CTEs) > 1 {
		f = append(f, "with.multiple")
	}
	for _, c := range w.CTEs {
		if len(c.Cols) > 0 {
			f = append(f, "with.column-list")
		}
		if c.Materialized != "" {
			f = append(f, "with."+strings.ToLower(strings.ReplaceAll(c.Materialized, " ", "-")))
		}
		f = append(f, "with.body:"+c.Body.Kind)
		f = append(f, c.Body.Feat...)
	}
	return f
}

func (w *With) names() []Name {
	var n []Name
	for _, c := range w.CTEs {
		n = append(n, Name{Role: "cte", Name: c.Name})
		for _, col := range c.Cols {
			n = append(n, Name{Role: "alias", Name: col})
		}
		n = append(n, c.Body.Names...)
	}
	return n
}

func identList(names []string) []Tok {
	var out []Tok
	for i, n := range names {
		if i > 0 {
			out = append(out, pt(","))
		}
		out = append(out, pt(n))
	}
	return out
}

// Sel is the specification of a SELECT.
type Sel struct {
	With       *With
	Distinct   bool
	DistinctOn []X
	Items      []SelItem
	From       []TableRef
	Joins      []Join
	Where      *X
	GroupBy    []X
	// GroupByWith is "", "ROLLUP" or "CUBE": the MySQL suffix form GROUP BY a, b WITH ROLLUP (same tree as ROLLUP(a, b))
	GroupByWith string
	Having      *X
	OrderBy     []OrderItem
	Limit       *int
	Offset      *int
	ZeroPad     int // leading zeros written in front of the LIMIT / OFFSET / FETCH counts (the value stays decimal)
	OffsetRows  bool
	Fetch       *Fetch
	For         *For
}

// Build renders the SELECT.
func (s Sel) Build() S {
	var t []Tok
	n := &ast.SelectStatement{}
	fs := [][]string{{"select"}}
	var names []Name
	if s.With != nil {
		t = cat(t, s.With.toks())
		n.With = s.With.ast()
		fs = append(fs, s.With.feat())
		names = append(names, s.With.names()...)
	}
	t = append(t, kw("SELECT"))
	if s.Distinct || len(s.DistinctOn) > 0 {
		t = append(t, kw("DISTINCT"))
		n.Distinct = true
		fs = append(fs, []string{"select.distinct"})
		if len(s.DistinctOn) > 0 {
			t = cat(t, kws("ON"), paren(commaList(s.DistinctOn, false)))
			n.DistinctOnColumns = exprs(s.DistinctOn)
			fs = append(fs, []string{"select.distinct-on"}, allFeat(s.DistinctOn))
			names = append(names, allNames(s.DistinctOn)...)
		}
	}
	for i, it := range s.Items {
		if i > 0 {
			t = append(t, pt(","))
		}
		t = cat(t, it.X.Toks)
		fs = append(fs, it.X.Feat)
		names = append(names, it.X.Names...)
		if it.X.Ops > 0 {
			fs = append(fs, []string{"select.item.operator-expr"})
		}
		if it.Alias != "" {
			if it.AsKw {
				t = append(t, kw("AS"))
				fs = append(fs, []string{"select.item.alias-as"})
			} else {
				fs = append(fs, []string{"select.item.alias"})
			}
			t = append(t, pt(it.Alias))
			n.Columns = append(n.Columns, &ast.AliasedExpression{Expr: it.X.N, Alias: it.Alias})
			names = append(names, Name{Role: "alias", Name: it.Alias})
		} else {
			n.Columns = append(n.Columns, it.X.N)
		}
	}
	if len(s.From) > 0 {
		t = append(t, kw("FROM"))
		for i, f := range s.From {
			if i > 0 {
				t = append(t, pt(","))
				fs = append(fs, []string{"select.from.list"})
			}
			t = cat(t, f.toks())
			n.From = append(n.From, f.ast())
			fs = append(fs, f.feat("select.from"))
			names = append(names, f.names()...)
		}
		for _, j := range s.Joins {
			t = cat(t, kws(j.Kw))
			t = cat(t, j.Right.toks())
			jc := ast.JoinClause{Type: joinType(j.Kw), Right: j.Right.ast()}
			fs = append(fs, []string{"select.join:" + strings.ReplaceAll(j.Kw, " ", "-")}, j.Right.feat("select.join"))
			names = append(names, j.Right.names()...)
			if j.On != nil {
				t = cat(t, kws("ON"), j.On.Toks)
				jc.Condition = j.On.N
				fs = append(fs, []string{"select.join.on"}, j.On.Feat)
				names = append(names, j.On.Names...)
			}
			if len(j.Using) > 0 {
				t = cat(t, kws("USING"), paren(identList(j.Using)))
				var ids []ast.Expression
				for _, u := range j.Using {
					ids = append(ids, &ast.Identifier{Name: u})
					names = append(names, Name{Role: "column", Name: u})
				}
				if len(ids) == 1 {
					jc.Condition = ids[0]
				} else {
					jc.Condition = &ast.ListExpression{Values: ids}
				}
				fs = append(fs, []string{"select.join.using"})
				if len(j.Using) > 1 {
					fs = append(fs, []string{"select.join.using.multi"})
				}
			}
			n.Joins = append(n.Joins, jc)
		}
	}
	if s.Where != nil {
		t = cat(t, kws("WHERE"), s.Where.Toks)
		n.Where = s.Where.N
		fs = append(fs, []string{"select.where"}, s.Where.Feat)
		names = append(names, s.Where.Names...)
	}
	if len(s.GroupBy) > 0 {
		t = cat(t, kws("GROUP BY"), commaList(s.GroupBy, false))
		n.GroupBy = exprs(s.GroupBy)
		switch s.GroupByWith {
		case "ROLLUP":
			t = cat(t, kws("WITH ROLLUP"))
			n.GroupBy = []ast.Expression{&ast.RollupExpression{Expressions: exprs(s.GroupBy)}}
			fs = append(fs, []string{"select.group-by.with-rollup", "select.group-by.rollup"})
		case "CUBE":
			t = cat(t, kws("WITH CUBE"))
			n.GroupBy = []ast.Expression{&ast.CubeExpression{Expressions: exprs(s.GroupBy)}}
			fs = append(fs, []string{"select.group-by.with-cube", "select.group-by.cube"})
		}
		fs = append(fs, []string{"select.group-by"}, allFeat(s.GroupBy))
		names = append(names, allNames(s.GroupBy)...)
	}
	if s.Having != nil {
		t = cat(t, kws("HAVING"), s.Having.Toks)
		n.Having = s.Having.N
		fs = append(fs, []string{"select.having"}, s.Having.Feat)
		names = append(names, s.Having.Names...)
	}
	if len(s.OrderBy) > 0 {
		t = cat(t, kws("ORDER BY"), orderToks(s.OrderBy, false))
		n.OrderBy = orderAST(s.OrderBy)
		fs = append(fs, []string{"select.order-by"}, orderFeat(s.OrderBy, "select.order-by"))
		names = append(names, orderNames(s.OrderBy)...)
	}
	if s.Limit != nil {
		t = append(t, kw("LIMIT"), pt(strings.Repeat("0", s.ZeroPad)+strconv.Itoa(*s.Limit)))
		v := *s.Limit
		n.Limit = &v
		fs = append(fs, []string{"select.limit"})
	}
	if s.Offset != nil {
		t = append(t, kw("OFFSET"), pt(strings.Repeat("0", s.ZeroPad)+strconv.Itoa(*s.Offset)))
		if s.OffsetRows {
			t = append(t, kw("ROWS"))
			fs = append(fs, []string{"select.offset.rows"})
		}
		v := *s.Offset
		n.Offset = &v
		fs = append(fs, []string{"select.offset"})
	}
	if s.Fetch != nil {
		f := s.Fetch
		t = append(t, kw("FETCH"), kw(f.Type), pt(strings.Repeat("0", s.ZeroPad)+strconv.FormatInt(f.N, 10)))
		if f.Percent {
			t = append(t, kw("PERCENT"))
		}
		rows := f.Rows
		if rows == "" {
			rows = "ROWS"
		}
		t = append(t, kw(rows))
		if f.WithTies {
			t = cat(t, kws("WITH TIES"))
		} else {
			t = append(t, kw("ONLY"))
		}
		v := f.N
		n.Fetch = &ast.FetchClause{FetchValue: &v, FetchType: f.Type, IsPercent: f.Percent, WithTies: f.WithTies}
		fs = append(fs, []string{"select.fetch"})
		if f.Percent {
			fs = append(fs, []string{"select.fetch.percent"})
		}
		if f.WithTies {
			fs = append(fs, []string{"select.fetch.with-ties"})
		}
	}
	if s.For != nil {
		f := s.For
		t = cat(t, kws("FOR"), kws(f.Lock))
		fc := &ast.ForClause{LockType: f.Lock, Tables: f.Of, NoWait: f.NoWait, SkipLocked: f.SkipLocked}
		fs = append(fs, []string{"select.for:" + strings.ReplaceAll(f.Lock, " ", "-")})
		if len(f.Of) > 0 {
			t = cat(t, kws("OF"), identList(f.Of))
			fs = append(fs, []string{"select.for.of"})
		}
		if f.NoWait {
			t = append(t, kw("NOWAIT"))
			fs = append(fs, []string{"select.for.nowait"})
		}
		if f.SkipLocked {
			t = cat(t, kws("SKIP LOCKED"))
			fs = append(fs, []string{"select.for.skip-locked"})
		}
		n.For = fc
	}
	return S{Toks: t, N: n, Feat: mergeFeat(fs...), Names: names, Kind: "select"}
}

// SetOp builds l OP [ALL] r.
func SetOp(l S, op string, all bool, r S) S {
	t := cat(l.Toks, kws(op))
	if all {
		t = append(t, kw("ALL"))
	}
	t = cat(t, r.Toks)
	f := []string{"setop:" + op}
	if all {
		f = append(f, "setop.all")
	}
	if l.Kind == "setop" {
		f = append(f, "setop.chain")
	}
	return S{Toks: t, N: &ast.SetOperation{Left: l.N, Operator: op, Right: r.N, All: all},
		Feat: mergeFeat(f, l.Feat, r.Feat), Names: mergeNames(l.Names, r.Names), Kind: "setop"}
}

// Grouping builders (GROUP BY elements).
func Rollup(xs []X) X {
	t := cat([]Tok{kw("ROLLUP"), {S: "(", Call: true}}, commaList(xs, false), []Tok{pt(")")})
	return X{Toks: t, Full: t, N: &ast.RollupExpression{Expressions: exprs(xs)}, P: PPrimary,
		Feat: mergeFeat([]string{"select.group-by.rollup"}, allFeat(xs)), Names: allNames(xs)}
}
func Cube(xs []X) X {
	t := cat([]Tok{kw("CUBE"), {S: "(", Call: true}}, commaList(xs, false), []Tok{pt(")")})
	return X{Toks: t, Full: t, N: &ast.CubeExpression{Expressions: exprs(xs)}, P: PPrimary,
		Feat: mergeFeat([]string{"select.group-by.cube"}, allFeat(xs)), Names: allNames(xs)}
}
func GroupingSets(sets [][]X) X {
	var in []Tok
	var as [][]ast.Expression
	var fs [][]string
	var names []Name
	for i, s := range sets {
		if i > 0 {
			in = append(in, pt(","))
		}
		in = cat(in, paren(commaList(s, false)))
		e := exprs(s)
		if e == nil {
			e = []ast.Expression{}
		}
		as = append(as, e)
		fs = append(fs, allFeat(s))
		names = append(names, allNames(s)...)
	}
	t := cat(kws("GROUPING SETS"), paren(in))
	fs = append(fs, []string{"select.group-by.grouping-sets"})
	return X{Toks: t, Full: t, N: &ast.GroupingSetsExpression{Sets: as}, P: PPrimary, Feat: mergeFeat(fs...), Names: names}
}

// ---------------------------------------------------------------- DML

// Assign is column = value.
type Assign struct {
	Col string
	Val X
}

func assignToks(as []Assign) []Tok {
	var t []Tok
	for i, a := range as {
		if i > 0 {
			t = append(t, pt(","))
		}
		t = cat(t, []Tok{pt(a.Col), pt("=")}, a.Val.Toks)
	}
	return t
}

func assignAST(as []Assign) []ast.UpdateExpression {
	var out []ast.UpdateExpression
	for _, a := range as {
		out = append(out, ast.UpdateExpression{Column: &ast.Identifier{Name: a.Col}, Value: a.Val.N})
	}
	return out
}

func assignFeat(as []Assign) []string {
	var fs [][]string
	for _, a := range as {
		fs = append(fs, a.Val.Feat)
		if a.Val.Ops > 0 {
			fs = append(fs, []string{"assign.operator-expr"})
		}
	}
	return mergeFeat(fs...)
}

func assignNames(as []Assign) []Name {
	var n []Name
	for _, a := range as {
		n = append(n, Name{Role: "column", Name: a.Col})
		n = append(n, a.Val.Names...)
	}
	return n
}

// OnConflict is the upsert clause.
type OnConflict struct {
	Target    []string
	DoNothing bool
	Set       []Assign
	Where     *X
}

// Ins is the specification of an INSERT.
type Ins struct {
	With       *With
	Schema     string
	Table      string
	Cols       []string
	Rows       [][]X
	Query      *S
	OnConflict *OnConflict
	Returning  []X
}

// Build renders the INSERT.
func (s Ins) Build() S {
	var t []Tok
	n := &ast.InsertStatement{TableName: s.Table}
	fs := [][]string{{"insert"}}
	names := []Name{{Role: "table", Name: s.Table, Qual: s.Schema}}
	if s.With != nil {
		t = cat(t, s.With.toks())
		n.With = s.With.ast()
		fs = append(fs, s.With.feat(), []string{"insert.with"})
		names = append(names, s.With.names()...)
	}
	t = cat(t, kws("INSERT INTO"))
	if s.Schema != "" {
		t = append(t, pt(s.Schema), pt("."))
		n.TableName = s.Schema + "." + s.Table
		fs = append(fs, []string{"insert.schema-qualified"})
	}
	t = append(t, pt(s.Table))
	if len(s.Cols) > 0 {
		t = cat(t, paren(identList(s.Cols)))
		for _, c := range s.Cols {
			n.Columns = append(n.Columns, &ast.Identifier{Name: c})
			names = append(names, Name{Role: "column", Name: c})
		}
		fs = append(fs, []string{"insert.columns"})
	}
	if s.Query != nil {
		t = cat(t, s.Query.Toks)
		n.Query = s.Query.N.(ast.QueryExpression)
		fs = append(fs, []string{"insert.query:" + s.Query.Kind}, s.Query.Feat)
		if s.Query.Toks[0].S == "WITH" {
			fs = append(fs, []string{"insert.query-with"})
		}
		if len(s.Returning) > 0 {
			fs = append(fs, []string{"insert.query.returning"})
		}
		if s.OnConflict != nil {
			fs = append(fs, []string{"insert.query.on-conflict"})
		}
		names = append(names, s.Query.Names...)
	} else {
		t = append(t, kw("VALUES"))
		for i, r := range s.Rows {
			if i > 0 {
				t = append(t, pt(","))
				fs = append(fs, []string{"insert.multi-row"})
			}
			t = cat(t, paren(commaList(r, false)))
			n.Values = append(n.Values, exprs(r))
			fs = append(fs, allFeat(r))
			names = append(names, allNames(r)...)
			if sumOps(r) > 0 {
				fs = append(fs, []string{"insert.values.operator-expr"})
			}
		}
	}
	if s.OnConflict != nil {
		oc := s.OnConflict
		t = cat(t, kws("ON CONFLICT"))
		a := &ast.OnConflict{}
		fs = append(fs, []string{"insert.on-conflict"})
		if len(oc.Target) > 0 {
			t = cat(t, paren(identList(oc.Target)))
			for _, c := range oc.Target {
				a.Target = append(a.Target, &ast.Identifier{Name: c})
				names = append(names, Name{Role: "column", Name: c})
			}
			fs = append(fs, []string{"insert.on-conflict.target"})
		}
		if oc.DoNothing {
			t = cat(t, kws("DO NOTHING"))
			a.Action.DoNothing = true
		} else {
			t = cat(t, kws("DO UPDATE SET"), assignToks(oc.Set))
			a.Action.DoUpdate = assignAST(oc.Set)
			fs = append(fs, []string{"insert.on-conflict.do-update"}, assignFeat(oc.Set))
			names = append(names, assignNames(oc.Set)...)
			if oc.Where != nil {
				t = cat(t, kws("WHERE"), oc.Where.Toks)
				a.Action.Where = oc.Where.N
				fs = append(fs, []string{"insert.on-conflict.where"}, oc.Where.Feat)
				names = append(names, oc.Where.Names...)
			}
		}
		n.OnConflict = a
	}
	if len(s.Returning) > 0 {
		t = cat(t, kws("RETURNING"), commaList(s.Returning, false))
		n.Returning = exprs(s.Returning)
		fs = append(fs, []string{"insert.returning"}, allFeat(s.Returning))
		names = append(names, allNames(s.Returning)...)
	}
	return S{Toks: t, N: n, Feat: mergeFeat(fs...), Names: names, Kind: "insert"}
}

// Upd is the specification of an UPDATE.
type Upd struct {
	With      *With
	Table     string
	Alias     string
	Set       []Assign
	From      []TableRef
	Where     *X
	Returning []X
}

// Build renders the UPDATE.
func (s Upd) Build() S {
	var t []Tok
	n := &ast.UpdateStatement{TableName: s.Table, Alias: s.Alias}
	fs := [][]string{{"update"}}
	names := []Name{{Role: "table", Name: s.Table}}
	if s.With != nil {
		t = cat(t, s.With.toks())
		n.With = s.With.ast()
		fs = append(fs, s.With.feat(), []string{"update.with"})
		names = append(names, s.With.names()...)
	}
	t = append(t, kw("UPDATE"), pt(s.Table))
	if s.Alias != "" {
		t = append(t, pt(s.Alias))
		fs = append(fs, []string{"update.alias"})
		names = append(names, Name{Role: "alias", Name: s.Alias})
	}
	t = cat(t, kws("SET"), assignToks(s.Set))
	n.Assignments = assignAST(s.Set)
	fs = append(fs, assignFeat(s.Set))
	names = append(names, assignNames(s.Set)...)
	if len(s.Set) > 1 {
		fs = append(fs, []string{"update.multi-set"})
	}
	if len(s.From) > 0 {
		t = append(t, kw("FROM"))
		for i, f := range s.From {
			if i > 0 {
				t = append(t, pt(","))
			}
			t = cat(t, f.toks())
			n.From = append(n.From, f.ast())
			fs = append(fs, f.feat("update.from"))
			names = append(names, f.names()...)
		}
		fs = append(fs, []string{"update.from"})
	}
	if s.Where != nil {
		t = cat(t, kws("WHERE"), s.Where.Toks)
		n.Where = s.Where.N
		fs = append(fs, []string{"update.where"}, s.Where.Feat)
		names = append(names, s.Where.Names...)
	}
	if len(s.Returning) > 0 {
		t = cat(t, kws("RETURNING"), commaList(s.Returning, false))
		n.Returning = exprs(s.Returning)
		fs = append(fs, []string{"update.returning"}, allFeat(s.Returning))
		names = append(names, allNames(s.Returning)...)
	}
	return S{Toks: t, N: n, Feat: mergeFeat(fs...), Names: names, Kind: "update"}
}

// Del is the specification of a DELETE.
type Del struct {
	With      *With
	Table     string
	Alias     string
	Using     []TableRef
	Where     *X
	Returning []X
}

// Build renders the DELETE.
func (s Del) Build() S {
	var t []Tok
	n := &ast.DeleteStatement{TableName: s.Table, Alias: s.Alias}
	fs := [][]string{{"delete"}}
	names := []Name{{Role: "table", Name: s.Table}}
	if s.With != nil {
		t = cat(t, s.With.toks())
		n.With = s.With.ast()
		fs = append(fs, s.With.feat(), []string{"delete.with"})
		names = append(names, s.With.names()...)
	}
	t = cat(t, kws("DELETE FROM"), []Tok{pt(s.Table)})
	if s.Alias != "" {
		t = append(t, pt(s.Alias))
		fs = append(fs, []string{"delete.alias"})
		names = append(names, Name{Role: "alias", Name: s.Alias})
	}
	if len(s.Using) > 0 {
		t = append(t, kw("USING"))
		for i, f := range s.Using {
			if i > 0 {
				t = append(t, pt(","))
			}
			t = cat(t, f.toks())
			n.Using = append(n.Using, f.ast())
			fs = append(fs, f.feat("delete.using"))
			names = append(names, f.names()...)
		}
		fs = append(fs, []string{"delete.using"})
	}
	if s.Where != nil {
		t = cat(t, kws("WHERE"), s.Where.Toks)
		n.Where = s.Where.N
		fs = append(fs, []string{"delete.where"}, s.Where.Feat)
		names = append(names, s.Where.Names...)
	}
	if len(s.Returning) > 0 {
		t = cat(t, kws("RETURNING"), commaList(s.Returning, false))
		n.Returning = exprs(s.Returning)
		fs = append(fs, []string{"delete.returning"}, allFeat(s.Returning))
		names = append(names, allNames(s.Returning)...)
	}
	return S{Toks: t, N: n, Feat: mergeFeat(fs...), Names: names, Kind: "delete"}
}

// MergeWhen is one WHEN clause of MERGE.
type MergeWhen struct {
	Type   string // MATCHED | NOT MATCHED | NOT MATCHED BY SOURCE
	Cond   *X
	Action string // UPDATE | INSERT | DELETE
	Set    []Assign
	Cols   []string
	Vals   []X
}

// Mrg is the specification of a MERGE.
type Mrg struct {
	Target, TargetAlias string
	TargetAs            bool
	Source, SourceAlias string
	On                  X
	Whens               []MergeWhen
}

// Build renders the MERGE.
func (s Mrg) Build() S {
	t := cat(kws("MERGE INTO"), []Tok{pt(s.Target)})
	n := &ast.MergeStatement{TargetTable: ast.TableReference{Name: s.Target}, TargetAlias: s.TargetAlias,
		SourceTable: ast.TableReference{Name: s.Source}, SourceAlias: s.SourceAlias, OnCondition: s.On.N}
	fs := [][]string{{"merge"}, s.On.Feat}
	names := []Name{{Role: "table", Name: s.Target}, {Role: "table", Name: s.Source}}
	if s.TargetAlias != "" {
		if s.TargetAs {
			t = append(t, kw("AS"))
		}
		t = append(t, pt(s.TargetAlias))
		names = append(names, Name{Role: "alias", Name: s.TargetAlias})
	}
	t = append(t, kw("USING"), pt(s.Source))
	if s.SourceAlias != "" {
		t = append(t, pt(s.SourceAlias))
		names = append(names, Name{Role: "alias", Name: s.SourceAlias})
	}
	t = cat(t, kws("ON"), s.On.Toks)
	names = append(names, s.On.Names...)
	for _, w := range s.Whens {
		t = cat(t, kws("WHEN "+w.Type))
		mw := &ast.MergeWhenClause{Type: strings.ReplaceAll(w.Type, " ", "_"), Action: &ast.MergeAction{ActionType: w.Action}}
		fs = append(fs, []string{"merge.when:" + strings.ReplaceAll(w.Type, " ", "-") + ":" + w.Action})
		if w.Cond != nil {
			t = cat(t, kws("AND"), w.Cond.Toks)
			mw.Condition = w.Cond.N
			fs = append(fs, []string{"merge.when.condition"}, w.Cond.Feat)
			names = append(names, w.Cond.Names...)
		}
		t = append(t, kw("THEN"))
		switch w.Action {
		case "UPDATE":
			t = cat(t, kws("UPDATE SET"), assignToks(w.Set))
			for _, a := range w.Set {
				mw.Action.SetClauses = append(mw.Action.SetClauses, ast.SetClause{Column: a.Col, Value: a.Val.N})
			}
			fs = append(fs, assignFeat(w.Set))
			names = append(names, assignNames(w.Set)...)
		case "INSERT":
			t = append(t, kw("INSERT"))
			if len(w.Cols) > 0 {
				t = cat(t, paren(identList(w.Cols)))
				mw.Action.Columns = w.Cols
				for _, c := range w.Cols {
					names = append(names, Name{Role: "column", Name: c})
				}
			}
			t = cat(t, kws("VALUES"), paren(commaList(w.Vals, false)))
			mw.Action.Values = exprs(w.Vals)
			fs = append(fs, allFeat(w.Vals))
			names = append(names, allNames(w.Vals)...)
		case "DELETE":
			t = append(t, kw("DELETE"))
		}
		n.WhenClauses = append(n.WhenClauses, mw)
	}
	return S{Toks: t, N: n, Feat: mergeFeat(fs...), Names: names, Kind: "merge"}
}
