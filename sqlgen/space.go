package sqlgen

import (
	"fmt"
	"strings"

	"github.com/ajitpratap0/GoSQLX/pkg/sql/ast"
)

// The enumerated spaces.  Everything here is deterministic and complete for the
// bound it states; nothing is sampled.

func ip(i int) *int { return &i }
func xp(x X) *X     { return &x }

// Leaves used in shape enumeration.
func leafA() X { return Col("c1") }
func leafB() X { return Col("c2") }
func leafC() X { return Int("3") }
func leafD() X { return Str("s4") }

// UnOp is a unary-like operator form applied to one operand.
type UnOp struct {
	Name  string
	Class string
	Apply func(x X) X
}

// UnOps is the catalogue of one-operand operator forms.
var UnOps = []UnOp{
	{"NOT", "not", func(x X) X { return Not(x) }},
	{"IS NULL", "isnull", func(x X) X { return IsNull(x, false) }},
	{"IS NOT NULL", "isnull", func(x X) X { return IsNull(x, true) }},
	{"IN", "in", func(x X) X { return In(x, false, []X{Int("1"), Int("2")}) }},
	{"NOT IN", "in", func(x X) X { return In(x, true, []X{Int("1"), Int("2")}) }},
	{"BETWEEN", "between", func(x X) X { return Between(x, false, Int("1"), Int("2")) }},
	{"NOT BETWEEN", "between", func(x X) X { return Between(x, true, Int("1"), Int("2")) }},
	{"NOT LIKE", "like", func(x X) X { return NotLike("LIKE", x, Str("p%")) }},
	{"NOT ILIKE", "like", func(x X) X { return NotLike("ILIKE", x, Str("p%")) }},
	{"-", "sign", func(x X) X { return Neg("-", x) }},
	{"+", "sign", func(x X) X { return Neg("+", x) }},
	{"::", "postfix", func(x X) X { return CastOp(x, "int") }},
	{"[]", "postfix", func(x X) X { return Subscript(x, Int("1")) }},
	{"[:]", "postfix", func(x X) X { return Slice(x, xp(Int("1")), xp(Int("2"))) }},
	{"IN-item", "in", func(x X) X { return In(Col("c9"), false, []X{x, Int("2")}) }},
	{"BETWEEN-lo", "between", func(x X) X { return Between(Col("c9"), false, x, Int("9")) }},
	{"BETWEEN-hi", "between", func(x X) X { return Between(Col("c9"), false, Int("0"), x) }},
}

// Shapes1 yields every expression with exactly one operator node.
func Shapes1(yield func(X)) {
	for _, o := range BinOps {
		yield(Bin(o.Sym, leafA(), leafB()))
		yield(Bin(o.Sym, leafA(), leafC()))
		yield(Bin(o.Sym, leafA(), leafD()))
	}
	for _, u := range UnOps {
		yield(u.Apply(leafA()))
	}
}

// Shapes2 yields every expression with exactly two operator nodes: every
// ordered pair of operator forms in both nesting shapes.
func Shapes2(yield func(X)) {
	inner := func(y func(X)) {
		for _, o := range BinOps {
			y(Bin(o.Sym, leafA(), leafB()))
		}
		for _, u := range UnOps {
			y(u.Apply(leafA()))
		}
	}
	for _, o := range BinOps {
		o := o
		inner(func(in X) { yield(Bin(o.Sym, in, leafC())) })
		inner(func(in X) { yield(Bin(o.Sym, Col("c5"), in)) })
	}
	for _, u := range UnOps {
		u := u
		inner(func(in X) { yield(u.Apply(in)) })
	}
}

// classReps: one operator form per precedence class, for 3- and 4-node trees.
type rep struct {
	name string
	bin  string
	un   func(X) X
}

var classReps = []rep{
	{name: "OR", bin: "OR"}, {name: "AND", bin: "AND"}, {name: "NOT", un: func(x X) X { return Not(x) }},
	{name: "=", bin: "="}, {name: "<", bin: "<"}, {name: "IS NULL", un: func(x X) X { return IsNull(x, false) }},
	{name: "||", bin: "||"}, {name: "+", bin: "+"}, {name: "-", bin: "-"}, {name: "*", bin: "*"}, {name: "/", bin: "/"},
	{name: "->", bin: "->"}, {name: "neg", un: func(x X) X { return Neg("-", x) }}, {name: "::", un: func(x X) X { return CastOp(x, "int") }},
}

// ShapesN yields all trees with exactly n operator nodes over the class representatives.
func ShapesN(n int, yield func(X)) {
	leafNo := 0
	var build func(n int, y func(X))
	build = func(n int, y func(X)) {
		if n == 0 {
			leafNo++
			y(Col("c" + string(rune('1'+leafNo%7))))
			return
		}
		for _, r := range classReps {
			r := r
			if r.un != nil {
				build(n-1, func(x X) { y(r.un(x)) })
				continue
			}
			for k := 0; k <= n-1; k++ {
				k := k
				build(k, func(l X) {
					build(n-1-k, func(rr X) { y(Bin(r.bin, l, rr)) })
				})
			}
		}
	}
	build(n, yield)
}

func simpleSel(tab string) S {
	return Sel{Items: []SelItem{{X: Col("c7")}}, From: []TableRef{{Name: tab}}}.Build()
}

func selWhere(x X) S {
	return Sel{Items: []SelItem{{X: Col("c0")}}, From: []TableRef{{Name: "t0"}}, Where: xp(x)}.Build()
}

func selItem(x X) S {
	return Sel{Items: []SelItem{{X: x}}, From: []TableRef{{Name: "t0"}}}.Build()
}

// RepExprs yields one representative of every expression production.
func RepExprs(yield func(name string, x X)) {
	yield("col", Col("c1"))
	yield("qcol", QCol("t0", "c1"))
	yield("int", Int("42"))
	yield("float", Float("1.5"))
	yield("float-exp", Float("1e5"))
	yield("string", Str("s1"))
	yield("string-quote", Str("it's"))
	yield("true", Bool("TRUE"))
	yield("false", Bool("FALSE"))
	yield("null", Null())
	yield("placeholder-dollar", Placeholder("$1"))
	yield("quoted-ident", QuotedCol("c 1"))
	yield("quoted-reserved", QuotedCol("select"))
	yield("quoted-qualified", X{Toks: []Tok{pt("t0"), pt("."), pt(`"c d"`)}, Full: []Tok{pt("t0"), pt("."), pt(`"c d"`)}, N: &ast.Identifier{Name: "c d", Table: "t0"}, P: PPrimary,
		Feat: []string{"expr.quoted-identifier", "expr.qualified-column"}, Names: []Name{{Role: "column", Name: "c d", Qual: "t0"}}})
	yield("unicode-ident", Col("名前"))
	yield("number-leading-zero", Int("007"))
	yield("float-exp-neg", Float("1.5E-3"))
	yield("string-empty", Str(""))
	yield("string-unicode", Str("naïve ☃"))
	yield("string-backslash", StrRaw(`'C:\\temp\\new'`, `C:\temp\new`))
	yield("string-backslash-percent", StrRaw(`'50\\%'`, `50\%`))
	yield("string-escape-n", StrRaw(`'a\nb'`, "a\nb"))
	yield("string-semicolon", Str("a;b"))
	// white space inside values: runs of blanks, a tab, blanks at either end, a no-break space, a form feed
	yield("string-two-blanks", Str("disk  full"))
	yield("string-tab", Str("col1\tcol2"))
	yield("string-blanks-at-ends", Str("  x "))
	yield("string-nbsp", Str("10\u00a0kg"))
	yield("string-formfeed", Str("a\fb"))
	yield("quoted-ident-two-blanks", QuotedCol("unit  price"))
	yield("string-comment-marks", Str("a -- b /* c */"))
	yield("string-double-quote", Str(`say "hi"`))
	yield("string-like-wildcards", Str("50%_x"))
	yield("float-exp-upper-int", Float("2E3"))
	yield("float-exp-upper-int-neg", Float("25E-3"))
	yield("float-exp-plus", Float("1.5e+3"))
	yield("add", Bin("+", Col("c1"), Int("1")))
	yield("mul-add", Bin("+", Bin("*", Col("c1"), Col("c2")), Int("1")))
	yield("add-mul-parens", Bin("*", Bin("+", Col("c1"), Col("c2")), Int("2")))
	yield("concat", Bin("||", Col("c1"), Str("s1")))
	yield("eq", Bin("=", Col("c1"), Int("1")))
	yield("eq-arith", Bin("=", Col("c1"), Bin("+", Col("c2"), Int("1"))))
	yield("and", Bin("AND", Bin("=", Col("c1"), Int("1")), Bin("<", Col("c2"), Int("2"))))
	yield("or-and", Bin("AND", Bin("OR", Col("c1"), Col("c2")), Col("c3")))
	yield("not", Not(Col("c1")))
	yield("neg", Neg("-", Int("1")))
	yield("is-null", IsNull(Col("c1"), false))
	yield("is-not-null", IsNull(Col("c1"), true))
	yield("in", In(Col("c1"), false, []X{Int("1"), Int("2")}))
	yield("not-in", In(Col("c1"), true, []X{Str("s1")}))
	yield("in-sub", InSub(Col("c1"), false, simpleSel("t8")))
	yield("between", Between(Col("c1"), false, Int("1"), Int("2")))
	yield("not-between", Between(Col("c1"), true, Col("c2"), Col("c3")))
	yield("like", Bin("LIKE", Col("c1"), Str("p%")))
	yield("not-like", NotLike("LIKE", Col("c1"), Str("p%")))
	yield("ilike", Bin("ILIKE", Col("c1"), Str("p%")))
	yield("exists", Exists(false, simpleSel("t8")))
	yield("not-exists", Exists(true, simpleSel("t8")))
	yield("scalar-sub", Subq(simpleSel("t8")))
	yield("eq-scalar-sub", Bin("=", Col("c1"), Subq(simpleSel("t8"))))
	yield("any", Quant(Col("c1"), ">", "ANY", simpleSel("t8")))
	yield("all", Quant(Col("c1"), "=", "ALL", simpleSel("t8")))
	yield("call", Func("f1", []X{Col("c1"), Int("2")}, FuncOpts{}))
	yield("call-noargs", Func("f2", nil, FuncOpts{}))
	yield("call-star", Func("COUNT", nil, FuncOpts{Star: true}))
	yield("call-distinct", Func("COUNT", []X{Col("c1")}, FuncOpts{Distinct: true}))
	yield("call-nested", Func("f1", []X{Func("f2", []X{Col("c1")}, FuncOpts{})}, FuncOpts{}))
	yield("call-order", Func("STRING_AGG", []X{Col("c1"), Str("s1")}, FuncOpts{OrderBy: []OrderItem{{X: Col("c2"), Dir: "DESC"}}}))
	yield("call-filter", Func("SUM", []X{Col("c1")}, FuncOpts{Filter: xp(Bin(">", Col("c2"), Int("1")))}))
	yield("call-within", Func("PERCENTILE_CONT", []X{Float("0.5")}, FuncOpts{WithinGroup: []OrderItem{{X: Col("c1")}}}))
	yield("over-empty", Func("ROW_NUMBER", nil, FuncOpts{Over: &Window{}}))
	yield("over-partition", Func("SUM", []X{Col("c1")}, FuncOpts{Over: &Window{Partition: []X{Col("c2")}}}))
	yield("over-order", Func("RANK", nil, FuncOpts{Over: &Window{Order: []OrderItem{{X: Col("c2"), Dir: "DESC"}}}}))
	yield("over-frame", Func("SUM", []X{Col("c1")}, FuncOpts{Over: &Window{Partition: []X{Col("c2")}, Order: []OrderItem{{X: Col("c3")}},
		FrameType: "ROWS", Start: FrameBound{Type: "PRECEDING", Value: xp(Int("1"))}, End: &FrameBound{Type: "CURRENT ROW"}}}))
	yield("over-frame-unbounded", Func("SUM", []X{Col("c1")}, FuncOpts{Over: &Window{Order: []OrderItem{{X: Col("c3")}},
		FrameType: "RANGE", Start: FrameBound{Type: "UNBOUNDED PRECEDING"}}}))
	yield("over-frame-following", Func("SUM", []X{Col("c1")}, FuncOpts{Over: &Window{Order: []OrderItem{{X: Col("c3")}},
		FrameType: "ROWS", Start: FrameBound{Type: "CURRENT ROW"}, End: &FrameBound{Type: "FOLLOWING", Value: xp(Int("2"))}}}))
	yield("case-searched", Case(nil, []When{{Bin(">", Col("c1"), Int("1")), Str("s1")}}, xp(Str("s2"))))
	yield("case-simple", Case(xp(Col("c1")), []When{{Int("1"), Str("s1")}, {Int("2"), Str("s2")}}, nil))
	// the optional parts of CASE in every combination the single forms above leave out, with a name of its own in every position
	yield("case-simple-else", Case(xp(Col("c1")), []When{{Int("1"), Func("f1", []X{Col("c4")}, FuncOpts{})}, {Int("2"), Subq(simpleSel("t8"))}}, xp(Col("c5"))))
	yield("case-simple-one-when-else", Case(xp(Col("c1")), []When{{Col("c2"), Col("c3")}}, xp(Col("c5"))))
	yield("case-simple-three-whens-else", Case(xp(Col("c1")), []When{{Int("1"), Col("c2")}, {Int("2"), Col("c3")}, {Int("3"), Func("f2", []X{Col("c4")}, FuncOpts{})}}, xp(Str("s9"))))
	yield("case-searched-three-whens", Case(nil, []When{{Bin(">", Col("c1"), Int("1")), Col("c2")}, {Bin("<", Col("c3"), Int("2")), Col("c4")}, {Col("c5"), Func("f2", []X{Col("c6")}, FuncOpts{})}}, nil))
	yield("cast", Cast(Col("c1"), "VARCHAR(10)"))
	yield("cast-op", CastOp(Col("c1"), "int"))
	yield("cast-op-params", CastOp(Col("c1"), "numeric(10,2)"))
	yield("interval", Interval("1 day"))
	yield("array", Array([]X{Int("1"), Int("2")}))
	// boundary arities: constructs that parse their elements in a loop, with no element and with exactly one
	yield("array-empty", X{Toks: []Tok{kw("ARRAY"), {S: "[", Call: true}, pt("]")}, Full: []Tok{kw("ARRAY"), {S: "[", Call: true}, pt("]")},
		N: &ast.ArrayConstructorExpression{}, P: PPrimary, Feat: []string{"expr.array", "expr.array.empty"}})
	yield("array-one", Array([]X{Col("c1")}))
	yield("array-subquery", ArraySub(simpleSel("t8")))
	yield("array-nested-empty", Array([]X{Array([]X{Int("1")}), X{Toks: []Tok{kw("ARRAY"), {S: "[", Call: true}, pt("]")}, Full: []Tok{kw("ARRAY"), {S: "[", Call: true}, pt("]")},
		N: &ast.ArrayConstructorExpression{}, P: PPrimary, Feat: []string{"expr.array", "expr.array.empty"}}}))
	// the optional clauses of a call in combination (each carries names of its own)
	flt := func() *X { return xp(Bin(">", Col("c7"), Func("f7", []X{Col("c8")}, FuncOpts{}))) }
	win := func() *Window {
		return &Window{Partition: []X{Col("c9")}, Order: []OrderItem{{X: Func("f9", []X{Col("c6")}, FuncOpts{})}}}
	}
	wg := []OrderItem{{X: Col("c5")}, {X: Col("c4"), Dir: "DESC"}}
	yield("call-distinct+filter", Func("COUNT", []X{Col("c1")}, FuncOpts{Distinct: true, Filter: flt()}))
	yield("call-filter+over", Func("SUM", []X{Col("c1")}, FuncOpts{Filter: flt(), Over: win()}))
	yield("call-within-group+filter", Func("PERCENTILE_CONT", []X{Float("0.5")}, FuncOpts{WithinGroup: wg, Filter: flt()}))
	yield("call-within-group+over", Func("PERCENTILE_DISC", []X{Float("0.9")}, FuncOpts{WithinGroup: wg, Over: win()}))
	yield("call-order-by+filter", Func("STRING_AGG", []X{Col("c1"), Str(",")}, FuncOpts{OrderBy: []OrderItem{{X: Col("c5")}}, Filter: flt()}))
	yield("call-distinct+order-by", Func("ARRAY_AGG", []X{Col("c1")}, FuncOpts{Distinct: true, OrderBy: []OrderItem{{X: Col("c1")}}}))
	yield("call-distinct+over", Func("COUNT", []X{Col("c1")}, FuncOpts{Distinct: true, Over: win()}))
	yield("call-within-group+filter+over", Func("PERCENTILE_CONT", []X{Float("0.5")}, FuncOpts{WithinGroup: wg, Filter: flt(), Over: win()}))
	yield("in-list-one", In(Col("c1"), false, []X{Int("1")}))
	yield("call-no-args", Func("f1", nil, FuncOpts{}))
	yield("call-over-empty", Func("SUM", []X{Col("c1")}, FuncOpts{Over: &Window{}}))
	yield("subscript", Subscript(Col("c1"), Int("1")))
	yield("subscript2", Subscript(Subscript(Col("c1"), Int("1")), Int("2")))
	yield("slice", Slice(Col("c1"), xp(Int("1")), xp(Int("2"))))
	// chains of subscripts and slices with a name of its own in every index position (what an earlier [...] holds must stay in the tree)
	yield("subscript-then-slice", Slice(Subscript(Col("c1"), Func("f1", []X{Col("c2")}, FuncOpts{})), xp(Col("c3")), xp(Col("c4"))))
	yield("subscript-then-open-slice", Slice(Subscript(Col("c1"), Col("c2")), nil, xp(Col("c3"))))
	yield("subscript-then-slice-from", Slice(Subscript(Col("c1"), Col("c2")), xp(Col("c3")), nil))
	yield("slice-then-subscript", Subscript(Slice(Col("c1"), xp(Col("c2")), xp(Col("c3"))), Func("f1", []X{Col("c4")}, FuncOpts{})))
	yield("slice-then-slice", Slice(Slice(Col("c1"), xp(Col("c2")), xp(Col("c3"))), xp(Col("c4")), xp(Col("c5"))))
	yield("subscript-subquery-then-slice", Slice(Subscript(Col("c1"), Subq(simpleSel("t8"))), xp(Int("1")), xp(Int("2"))))
	yield("tuple", Tuple([]X{Col("c1"), Col("c2")}))
	// a construct directly inside the same construct (pooled node types meet themselves)
	yield("tuple-of-tuples", Tuple([]X{Tuple([]X{Int("1"), Col("c2")}), Tuple([]X{Col("c3"), Int("4")})}))
	yield("array-of-arrays", Array([]X{Array([]X{Int("1"), Col("c2")}), Array([]X{Col("c3")})}))
	yield("call-of-calls", Func("f1", []X{Func("f2", []X{Col("c1")}, FuncOpts{}), Func("f3", []X{Col("c2"), Int("1")}, FuncOpts{})}, FuncOpts{}))
	yield("case-in-case", Case(nil, []When{{Col("c1"), Case(xp(Col("c2")), []When{{Int("1"), Col("c3")}}, xp(Col("c4")))}}, xp(Col("c5"))))
	yield("in-list-of-tuples", In(Tuple([]X{Col("c1"), Col("c2")}), false, []X{Tuple([]X{Int("1"), Int("2")}), Tuple([]X{Col("c3"), Int("4")})}))
	yield("json-arrow", Bin("->", Col("c1"), Str("k")))
	yield("json-contains", Bin("@>", Col("c1"), Col("c2")))
	yield("regex", Bin("~", Col("c1"), Str("p")))
	yield("redundant-parens", Extra(Bin("=", Col("c1"), Int("1")), 1))
	yield("redundant-parens2", Bin("AND", Extra(Col("c1"), 2), Extra(Bin("=", Col("c2"), Int("1")), 1)))
}

// ArithReps: representatives legal in restricted (b_expr-like) positions.
func arithReps(yield func(name string, x X)) {
	yield("int", Int("42"))
	yield("string", Str("s1"))
	yield("add", Bin("+", Col("c1"), Int("1")))
	yield("call", Func("f1", []X{Col("c1")}, FuncOpts{}))
	yield("neg", Neg("-", Int("1")))
	yield("null", Null())
	yield("true", Bool("TRUE"))
}

// Hole is a place where an expression may be written.
type Hole struct {
	Name  string
	Fill  func(x X) S
	Arith bool // only arithmetic-level representatives
}

// Holes lists every expression hole of every statement production.
func Holes() []Hole {
	base := func() Sel {
		return Sel{Items: []SelItem{{X: Col("c0")}}, From: []TableRef{{Name: "t0"}}}
	}
	return []Hole{
		{Name: "select.item", Fill: func(x X) S { return selItem(x) }},
		{Name: "select.item-aliased", Fill: func(x X) S {
			return Sel{Items: []SelItem{{X: x, Alias: "a1", AsKw: true}, {X: Col("c0")}}, From: []TableRef{{Name: "t0"}}}.Build()
		}},
		{Name: "select.item-second", Fill: func(x X) S {
			return Sel{Items: []SelItem{{X: Col("c0")}, {X: x}}, From: []TableRef{{Name: "t0"}}}.Build()
		}},
		{Name: "select.nofrom", Fill: func(x X) S { return Sel{Items: []SelItem{{X: x}}}.Build() }},
		{Name: "select.where", Fill: func(x X) S { return selWhere(x) }},
		{Name: "select.having", Fill: func(x X) S {
			s := base()
			s.GroupBy = []X{Col("c0")}
			s.Having = xp(x)
			return s.Build()
		}},
		{Name: "select.join-on", Fill: func(x X) S {
			s := base()
			s.Joins = []Join{{Kw: "JOIN", Right: TableRef{Name: "t1"}, On: xp(x)}}
			return s.Build()
		}},
		{Name: "select.join2-on", Fill: func(x X) S {
			s := base()
			s.Joins = []Join{{Kw: "LEFT JOIN", Right: TableRef{Name: "t1"}, On: xp(Bin("=", QCol("t0", "c1"), QCol("t1", "c1")))},
				{Kw: "INNER JOIN", Right: TableRef{Name: "t2", Alias: "a2"}, On: xp(x)}}
			return s.Build()
		}},
		{Name: "select.group-by", Fill: func(x X) S {
			s := base()
			s.GroupBy = []X{x, Col("c0")}
			return s.Build()
		}},
		{Name: "select.order-by", Fill: func(x X) S {
			s := base()
			s.OrderBy = []OrderItem{{X: x, Dir: "DESC"}, {X: Col("c0")}}
			return s.Build()
		}},
		{Name: "select.distinct-on", Fill: func(x X) S {
			s := base()
			s.DistinctOn = []X{x}
			return s.Build()
		}},
		{Name: "call.arg", Fill: func(x X) S { return selItem(Func("f9", []X{Col("c0"), x}, FuncOpts{})) }},
		{Name: "call.filter", Fill: func(x X) S { return selItem(Func("SUM", []X{Col("c0")}, FuncOpts{Filter: xp(x)})) }},
		{Name: "call.order-by", Fill: func(x X) S {
			return selItem(Func("ARRAY_AGG", []X{Col("c0")}, FuncOpts{OrderBy: []OrderItem{{X: x}}}))
		}},
		{Name: "over.partition", Fill: func(x X) S {
			return selItem(Func("SUM", []X{Col("c0")}, FuncOpts{Over: &Window{Partition: []X{x}}}))
		}},
		{Name: "over.order", Fill: func(x X) S {
			return selItem(Func("SUM", []X{Col("c0")}, FuncOpts{Over: &Window{Order: []OrderItem{{X: x}}}}))
		}},
		{Name: "case.operand", Fill: func(x X) S { return selItem(Case(xp(x), []When{{Int("1"), Int("2")}}, nil)) }},
		{Name: "case.condition", Fill: func(x X) S { return selItem(Case(nil, []When{{x, Int("2")}}, nil)) }},
		{Name: "case.result", Fill: func(x X) S { return selItem(Case(nil, []When{{Col("c0"), x}}, nil)) }},
		{Name: "case.else", Fill: func(x X) S { return selItem(Case(nil, []When{{Col("c0"), Int("1")}}, xp(x))) }},
		{Name: "in.item", Fill: func(x X) S { return selWhere(In(Col("c0"), false, []X{Int("1"), x})) }},
		{Name: "cast.operand", Fill: func(x X) S { return selItem(Cast(x, "int")) }},
		{Name: "array.element", Fill: func(x X) S { return selItem(Array([]X{x, Int("1")})) }},
		{Name: "subscript.index", Fill: func(x X) S { return selItem(Subscript(Col("c0"), x)) }},
		{Name: "subscript.index-before-slice", Fill: func(x X) S { return selItem(Slice(Subscript(Col("c0"), x), xp(Int("1")), xp(Int("2")))) }},
		{Name: "slice.low", Fill: func(x X) S { return selItem(Slice(Col("c0"), xp(x), xp(Int("2")))) }},
		{Name: "slice.high", Fill: func(x X) S { return selItem(Slice(Col("c0"), nil, xp(x))) }},
		{Name: "tuple.element", Fill: func(x X) S { return selWhere(In(Tuple([]X{Col("c0"), x}), false, []X{Tuple([]X{Int("1"), Int("2")})})) }},
		{Name: "subquery.where", Fill: func(x X) S { return selWhere(Exists(false, selWhere(x))) }},
		{Name: "derived.where", Fill: func(x X) S {
			q := selWhere(x)
			return Sel{Items: []SelItem{{X: Star()}}, From: []TableRef{{Sub: &q, Alias: "a1", AsKw: true}}}.Build()
		}},
		{Name: "cte.where", Fill: func(x X) S {
			return Sel{With: &With{CTEs: []CTE{{Name: "w1", Body: selWhere(x)}}}, Items: []SelItem{{X: Star()}}, From: []TableRef{{Name: "w1"}}}.Build()
		}},
		{Name: "setop.right.where", Fill: func(x X) S { return SetOp(simpleSel("t1"), "UNION", true, selWhere(x)) }},
		{Name: "insert.value", Fill: func(x X) S {
			return Ins{Table: "t0", Cols: []string{"c1", "c2"}, Rows: [][]X{{Int("1"), x}}}.Build()
		}},
		{Name: "insert.select.where", Fill: func(x X) S {
			q := selWhere(x)
			return Ins{Table: "t0", Cols: []string{"c1"}, Query: &q}.Build()
		}},
		{Name: "insert.returning", Fill: func(x X) S {
			return Ins{Table: "t0", Rows: [][]X{{Int("1")}}, Returning: []X{x}}.Build()
		}},
		{Name: "insert.on-conflict.set", Fill: func(x X) S {
			return Ins{Table: "t0", Cols: []string{"c1"}, Rows: [][]X{{Int("1")}}, OnConflict: &OnConflict{Target: []string{"c1"}, Set: []Assign{{"c2", x}}}}.Build()
		}},
		{Name: "insert.on-conflict.where", Fill: func(x X) S {
			return Ins{Table: "t0", Cols: []string{"c1"}, Rows: [][]X{{Int("1")}}, OnConflict: &OnConflict{Target: []string{"c1"}, Set: []Assign{{"c2", Int("2")}}, Where: xp(x)}}.Build()
		}},
		{Name: "update.set", Fill: func(x X) S { return Upd{Table: "t0", Set: []Assign{{"c1", x}}}.Build() }},
		{Name: "update.set-second", Fill: func(x X) S {
			return Upd{Table: "t0", Set: []Assign{{"c1", Int("1")}, {"c2", x}}, Where: xp(Col("c3"))}.Build()
		}},
		{Name: "update.where", Fill: func(x X) S { return Upd{Table: "t0", Set: []Assign{{"c1", Int("1")}}, Where: xp(x)}.Build() }},
		{Name: "update.returning", Fill: func(x X) S {
			return Upd{Table: "t0", Set: []Assign{{"c1", Int("1")}}, Returning: []X{x}}.Build()
		}},
		{Name: "delete.where", Fill: func(x X) S { return Del{Table: "t0", Where: xp(x)}.Build() }},
		{Name: "delete.returning", Fill: func(x X) S { return Del{Table: "t0", Where: xp(Col("c1")), Returning: []X{x}}.Build() }},
		{Name: "merge.on", Fill: func(x X) S {
			return Mrg{Target: "t0", TargetAlias: "a1", Source: "t1", SourceAlias: "a2", On: x,
				Whens: []MergeWhen{{Type: "MATCHED", Action: "DELETE"}}}.Build()
		}},
		{Name: "merge.when-condition", Fill: func(x X) S {
			return Mrg{Target: "t0", Source: "t1", On: Bin("=", QCol("t0", "c1"), QCol("t1", "c1")),
				Whens: []MergeWhen{{Type: "MATCHED", Cond: xp(x), Action: "DELETE"}}}.Build()
		}},
		{Name: "merge.update-set", Fill: func(x X) S {
			return Mrg{Target: "t0", Source: "t1", On: Bin("=", QCol("t0", "c1"), QCol("t1", "c1")),
				Whens: []MergeWhen{{Type: "MATCHED", Action: "UPDATE", Set: []Assign{{"c2", x}}}}}.Build()
		}},
		{Name: "merge.insert-value", Fill: func(x X) S {
			return Mrg{Target: "t0", Source: "t1", On: Bin("=", QCol("t0", "c1"), QCol("t1", "c1")),
				Whens: []MergeWhen{{Type: "NOT MATCHED", Action: "INSERT", Cols: []string{"c1", "c2"}, Vals: []X{Int("1"), x}}}}.Build()
		}},
		{Name: "create-table.check", Fill: func(x X) S {
			return CreateTable{Name: "t0", Cols: []ColDef{{Name: "c1", Type: "INT"}}, Constraints: []TableCons{{Type: "CHECK", Check: xp(x)}}}.Build()
		}},
		{Name: "create-table.column-check", Fill: func(x X) S {
			return CreateTable{Name: "t0", Cols: []ColDef{{Name: "c1", Type: "INT", Cons: []ColCons{{Type: "CHECK", Check: xp(x)}}}}}.Build()
		}},
		{Name: "create-table.default", Arith: true, Fill: func(x X) S {
			return CreateTable{Name: "t0", Cols: []ColDef{{Name: "c1", Type: "INT", Cons: []ColCons{{Type: "DEFAULT", Default: xp(x)}}}}}.Build()
		}},
		{Name: "create-index.where", Fill: func(x X) S {
			return CreateIndex{Name: "i1", Table: "t0", Cols: []IdxCol{{Name: "c1"}}, Where: xp(x)}.Build()
		}},
		{Name: "create-view.where", Fill: func(x X) S { return CreateView{Name: "v1", Query: selWhere(x)}.Build() }},
	}
}

// HoleCases yields every hole filled with every representative expression.
func HoleCases(yield func(hole, rep string, s S)) {
	for _, h := range Holes() {
		h := h
		gen := RepExprs
		if h.Arith {
			gen = arithReps
		}
		gen(func(name string, x X) { yield(h.Name, name, h.Fill(x)) })
	}
}

// SelectClauseSubsets yields every subset of the ten optional SELECT clauses.
// Every clause carries a name that occurs nowhere else in the statement, so that an oracle over collected names
// notices a clause that is skipped.
func SelectClauseSubsets(yield func(mask int, s S)) {
	for m := 0; m < 1<<10; m++ {
		s := Sel{Items: []SelItem{{X: Col("c1")}, {X: Func("COUNT", nil, FuncOpts{Star: true}), Alias: "a1", AsKw: true}}, From: []TableRef{{Name: "t1"}}}
		if m&1 != 0 {
			s.With = &With{CTEs: []CTE{{Name: "w1", Body: simpleSel("t9")}}}
		}
		if m&2 != 0 {
			s.Distinct = true
		}
		if m&4 != 0 {
			s.Joins = []Join{{Kw: "LEFT JOIN", Right: TableRef{Name: "t2", Alias: "a2"}, On: xp(Bin("=", QCol("t1", "c1"), QCol("a2", "c6")))}}
		}
		if m&8 != 0 {
			s.Where = xp(Bin(">", Col("c2"), Int("0")))
		}
		if m&16 != 0 {
			s.GroupBy = []X{Col("c3")}
		}
		if m&32 != 0 {
			s.Having = xp(Bin(">", Func("SUM", []X{Col("c4")}, FuncOpts{}), Int("1")))
		}
		if m&64 != 0 {
			s.OrderBy = []OrderItem{{X: Col("c5"), Dir: "DESC", Nulls: "LAST"}}
		}
		if m&128 != 0 {
			s.Limit = ip(10)
		}
		if m&256 != 0 {
			s.Offset = ip(5)
		}
		if m&512 != 0 {
			s.For = &For{Lock: "UPDATE"}
		}
		yield(m, s.Build())
	}
}

// ClauseOptions yields each clause's internal options varied one at a time.
func ClauseOptions(yield func(name string, s S)) {
	base := func() Sel { return Sel{Items: []SelItem{{X: Col("c1")}}, From: []TableRef{{Name: "t1"}}} }
	// select list forms
	s := base()
	s.Items = []SelItem{{X: Star()}}
	yield("star", s.Build())
	s = base()
	s.Items = []SelItem{{X: QStar("t1")}, {X: Col("c1")}}
	yield("qstar", s.Build())
	s = base()
	s.Items = []SelItem{{X: Col("c1"), Alias: "a1"}, {X: Col("c2"), Alias: "a2", AsKw: true}}
	yield("aliases", s.Build())
	// comparisons between two literals of every pair of kinds (number, string, NULL, boolean, placeholder), as the WHERE
	// condition, as a HAVING condition next to a WHERE, and below OR: code that looks at both operands of a comparison meets
	// every combination of literal payloads
	lits := []struct {
		name string
		x    func() X
	}{{"int", func() X { return Int("1") }}, {"str", func() X { return Str("s1") }}, {"null", func() X { return Null() }},
		{"bool", func() X { return Bool("TRUE") }}, {"float", func() X { return Float("1.5") }}, {"param", func() X { return Placeholder("$1") }}}
	for _, la := range lits {
		for _, lb := range lits {
			for _, op := range []string{"=", "<>"} {
				cmp := Bin(op, la.x(), lb.x())
				s = base()
				s.Where = xp(cmp)
				yield("literal-comparison", s.Build())
				if op == "=" {
					s = base()
					s.Where = xp(Bin("OR", Bin("=", Col("c2"), Int("7")), cmp))
					s.GroupBy = []X{Col("c1")}
					s.Having = xp(Bin(op, lb.x(), la.x()))
					yield("literal-comparison-having", s.Build())
				}
			}
		}
	}
	// from forms
	for _, tr := range []struct {
		n string
		t TableRef
	}{
		{"from-schema", TableRef{Schema: "s1", Name: "t1"}}, {"from-alias", TableRef{Name: "t1", Alias: "a1"}},
		{"from-alias-as", TableRef{Name: "t1", Alias: "a1", AsKw: true}}, {"from-schema-alias", TableRef{Schema: "s1", Name: "t1", Alias: "a1", AsKw: true}},
	} {
		s = base()
		s.From = []TableRef{tr.t}
		yield(tr.n, s.Build())
	}
	s = base()
	s.From = []TableRef{{Name: "t1"}, {Name: "t2", Alias: "a2"}, {Schema: "s1", Name: "t3"}}
	yield("from-list", s.Build())
	q := simpleSel("t5")
	s = base()
	s.From = []TableRef{{Sub: &q, Alias: "a1", AsKw: true}}
	yield("from-derived", s.Build())
	s = base()
	s.From = []TableRef{{Sub: &q, Alias: "a1"}}
	yield("from-derived-noas", s.Build())
	s = base()
	s.From = []TableRef{{Name: "t1"}, {Sub: &q, Alias: "a1", Lateral: true}}
	yield("from-lateral", s.Build())
	// the same base name under different qualifiers, and the same column under different tables: names that only
	// differ in their qualifier must stay apart wherever names are collected or compared
	s = base()
	s.From = []TableRef{{Schema: "s1", Name: "t1"}, {Schema: "s2", Name: "t1"}}
	yield("same-name-two-schemas", s.Build())
	s = base()
	s.From = []TableRef{{Name: "t1"}, {Schema: "s1", Name: "t1", Alias: "a2"}}
	yield("same-name-bare-and-schema", s.Build())
	s = base()
	s.From = []TableRef{{Schema: "s1", Name: "t1", Alias: "a1"}}
	s.Joins = []Join{{Kw: "JOIN", Right: TableRef{Schema: "s2", Name: "t1", Alias: "a2"}, On: xp(Bin("=", QCol("a1", "c1"), QCol("a2", "c1")))}}
	s.Items = []SelItem{{X: QCol("a1", "c1")}, {X: QCol("a2", "c1")}, {X: QCol("a2", "c2")}}
	yield("same-name-join", s.Build())
	sub := Sel{Items: []SelItem{{X: Col("c1")}}, From: []TableRef{{Schema: "s2", Name: "t1"}}}.Build()
	s = base()
	s.From = []TableRef{{Schema: "s1", Name: "t1"}}
	s.Where = xp(InSub(Col("c1"), false, sub))
	yield("same-name-subquery", s.Build())
	// FROM lists with derived tables in every position (first / middle / last / all)
	d1 := Sel{Items: []SelItem{{X: Func("f1", []X{Col("c1")}, FuncOpts{}), Alias: "a7", AsKw: true}}, From: []TableRef{{Name: "t5"}}, Where: xp(Bin(">", Col("c5"), Int("0")))}.Build()
	d2 := Sel{Items: []SelItem{{X: Func("f2", []X{Col("c2")}, FuncOpts{}), Alias: "a8", AsKw: true}}, From: []TableRef{{Name: "t6"}}, Where: xp(Bin(">", Col("c6"), Int("0")))}.Build()
	for m, fl := range [][]TableRef{
		{{Sub: &d1, Alias: "a1"}, {Name: "t2"}},
		{{Name: "t1"}, {Sub: &d1, Alias: "a1"}},
		{{Name: "t1"}, {Sub: &d1, Alias: "a1"}, {Name: "t3"}},
		{{Sub: &d1, Alias: "a1"}, {Sub: &d2, Alias: "a2"}},
		{{Sub: &d2, Alias: "a2"}, {Sub: &d1, Alias: "a1"}},
		{{Sub: &d1, Alias: "a1"}, {Name: "t2"}, {Sub: &d2, Alias: "a2"}},
	} {
		s = base()
		s.From = fl
		yield(fmt.Sprintf("from-list-derived-%d", m), s.Build())
	}
	// a derived table that is also the left operand of the first join, and derived tables on both sides
	s = base()
	s.From = []TableRef{{Sub: &q, Alias: "a1"}}
	s.Joins = []Join{{Kw: "JOIN", Right: TableRef{Name: "t2"}, On: xp(Bin("=", QCol("a1", "c7"), QCol("t2", "c7")))}}
	yield("from-derived-join", s.Build())
	q2 := simpleSel("t6")
	s = base()
	s.From = []TableRef{{Sub: &q, Alias: "a1", AsKw: true}}
	s.Joins = []Join{{Kw: "LEFT JOIN", Right: TableRef{Sub: &q2, Alias: "a2"}, On: xp(Bool("TRUE"))}, {Kw: "JOIN", Right: TableRef{Name: "t3"}, Using: []string{"c7"}}}
	yield("from-derived-join-derived", s.Build())
	// aliased pooled-shape expressions in the select list
	s = base()
	s.Items = []SelItem{{X: Subscript(Col("c1"), Int("1")), Alias: "a1", AsKw: true}, {X: Slice(Col("c2"), xp(Int("1")), xp(Int("2"))), Alias: "a2", AsKw: true},
		{X: Tuple([]X{Col("c3"), Col("c4")}), Alias: "a3", AsKw: true}, {X: Array([]X{Int("1"), Int("2")}), Alias: "a4", AsKw: true}}
	yield("aliased-pooled-shapes", s.Build())
	// joins
	for _, jk := range []string{"JOIN", "INNER JOIN", "LEFT JOIN", "LEFT OUTER JOIN", "RIGHT JOIN", "RIGHT OUTER JOIN", "FULL JOIN", "FULL OUTER JOIN"} {
		s = base()
		s.Joins = []Join{{Kw: jk, Right: TableRef{Name: "t2"}, On: xp(Bin("=", QCol("t1", "c1"), QCol("t2", "c1")))}}
		yield("join:"+jk, s.Build())
		s = base()
		s.Joins = []Join{{Kw: jk, Right: TableRef{Name: "t2", Alias: "a2", AsKw: true}, Using: []string{"c1"}}}
		yield("join-using:"+jk, s.Build())
		s = base()
		s.Joins = []Join{{Kw: jk, Right: TableRef{Name: "t2"}, Using: []string{"c1", "c2"}}}
		yield("join-using2:"+jk, s.Build())
	}
	for _, jk := range []string{"CROSS JOIN", "NATURAL JOIN", "NATURAL LEFT JOIN", "NATURAL INNER JOIN"} {
		s = base()
		s.Joins = []Join{{Kw: jk, Right: TableRef{Name: "t2"}}}
		yield("join:"+jk, s.Build())
	}
	s = base()
	s.Joins = []Join{{Kw: "JOIN", Right: TableRef{Sub: &q, Alias: "a2"}, On: xp(Bool("TRUE"))}}
	yield("join-derived", s.Build())
	s = base()
	s.Joins = []Join{{Kw: "LEFT JOIN", Right: TableRef{Sub: &q, Alias: "a2", Lateral: true}, On: xp(Bool("TRUE"))}}
	yield("join-lateral", s.Build())
	s = base()
	s.Joins = []Join{{Kw: "JOIN", Right: TableRef{Schema: "s1", Name: "t2", Alias: "a2"}, On: xp(Col("c1"))},
		{Kw: "LEFT JOIN", Right: TableRef{Name: "t3"}, Using: []string{"c1"}}, {Kw: "CROSS JOIN", Right: TableRef{Name: "t4"}}}
	yield("join-chain", s.Build())
	s = base()
	s.From = []TableRef{{Name: "t1"}, {Name: "t2"}}
	s.Joins = []Join{{Kw: "JOIN", Right: TableRef{Name: "t3"}, On: xp(Col("c1"))}}
	yield("from-list-join", s.Build())
	// distinct on
	s = base()
	s.DistinctOn = []X{Col("c1"), Col("c2")}
	yield("distinct-on", s.Build())
	// group by forms
	s = base()
	s.GroupBy = []X{Col("c1"), Col("c2")}
	yield("group-by-2", s.Build())
	s = base()
	s.GroupBy = []X{Rollup([]X{Col("c1"), Col("c2")})}
	yield("rollup", s.Build())
	for _, w := range []string{"ROLLUP", "CUBE"} {
		for _, gb := range [][]X{{Col("c1")}, {Col("c1"), Col("c2")}, {Col("c1"), Func("f1", []X{Col("c3")}, FuncOpts{}), Col("c2")}} {
			s = base()
			s.GroupBy, s.GroupByWith = gb, w
			yield("group-by-with-"+strings.ToLower(w), s.Build())
			s.Having = xp(Bin(">", Func("COUNT", nil, FuncOpts{Star: true}), Int("1")))
			s.OrderBy = []OrderItem{{X: Col("c1")}}
			yield("group-by-with-"+strings.ToLower(w)+"-having-order", s.Build())
		}
	}
	s = base()
	s.GroupBy = []X{Cube([]X{Col("c1")})}
	yield("cube", s.Build())
	s = base()
	s.GroupBy = []X{GroupingSets([][]X{{Col("c1")}, {Col("c1"), Col("c2")}, {}})}
	yield("grouping-sets", s.Build())
	// the empty set first and in the middle
	s = base()
	s.GroupBy = []X{GroupingSets([][]X{{}, {Col("c1")}, {Col("c1"), Func("f1", []X{Col("c2")}, FuncOpts{})}})}
	yield("grouping-sets-empty-first", s.Build())
	s = base()
	s.GroupBy = []X{GroupingSets([][]X{{Col("c1")}, {}, {Col("c2"), Col("c3")}})}
	yield("grouping-sets-empty-middle", s.Build())
	s = base()
	s.GroupBy = []X{Col("c3"), Rollup([]X{Col("c1")}), Cube([]X{Col("c2")})}
	yield("group-by-mixed", s.Build())
	// order by forms
	for _, d := range []string{"", "ASC", "DESC"} {
		for _, nl := range []string{"", "FIRST", "LAST"} {
			s = base()
			s.OrderBy = []OrderItem{{X: Col("c1"), Dir: d, Nulls: nl}, {X: Col("c2")}}
			yield("order:"+d+":"+nl, s.Build())
		}
	}
	// limit/offset/fetch
	s = base()
	s.Limit = ip(10)
	s.Offset = ip(20)
	yield("limit-offset", s.Build())
	s = base()
	s.Offset = ip(20)
	yield("offset-only", s.Build())
	s = base()
	s.Limit = ip(0)
	yield("limit-zero", s.Build())
	for _, ft := range []string{"FIRST", "NEXT"} {
		for _, pc := range []bool{false, true} {
			for _, wt := range []bool{false, true} {
				for _, rw := range []string{"ROW", "ROWS"} {
					s = base()
					s.Fetch = &Fetch{Type: ft, N: 10, Percent: pc, WithTies: wt, Rows: rw}
					yield("fetch", s.Build())
				}
			}
		}
	}
	s = base()
	s.Offset = ip(5)
	s.OffsetRows = true
	s.Fetch = &Fetch{Type: "FIRST", N: 10}
	yield("offset-rows-fetch", s.Build())
	// counts written with leading zeros (decimal all the same), values whose digits would also be octal and values that would not
	for _, pad := range []int{1, 2} {
		for _, v := range []int{8, 10, 25, 100} {
			s = base()
			s.ZeroPad = pad
			s.Limit = ip(v)
			s.Offset = ip(v + 9)
			yield("limit-offset-zero-padded", s.Build())
			s = base()
			s.ZeroPad = pad
			s.Offset = ip(v)
			s.OffsetRows = true
			s.Fetch = &Fetch{Type: "NEXT", N: int64(v) + 1}
			yield("offset-fetch-zero-padded", s.Build())
		}
	}
	// for
	for _, l := range []string{"UPDATE", "SHARE", "NO KEY UPDATE", "KEY SHARE"} {
		for _, of := range [][]string{nil, {"t1"}, {"t1", "t2"}} {
			for _, w := range []int{0, 1, 2} {
				s = base()
				s.For = &For{Lock: l, Of: of, NoWait: w == 1, SkipLocked: w == 2}
				yield("for", s.Build())
			}
		}
	}
	// set operations
	for _, op := range []string{"UNION", "EXCEPT", "INTERSECT"} {
		for _, all := range []bool{false, true} {
			yield("setop", SetOp(simpleSel("t1"), op, all, simpleSel("t2")))
			yield("setop-chain", SetOp(SetOp(simpleSel("t1"), op, all, simpleSel("t2")), "UNION", false, simpleSel("t3")))
		}
	}
	// the same list-bearing clause twice in one statement, each with names of its own and lists of different lengths
	// in both orders: what the parser collected for the first occurrence must survive the second
	for m, js := range [][]Join{
		{{Kw: "JOIN", Right: TableRef{Name: "t2"}, Using: []string{"c2", "c3"}}, {Kw: "JOIN", Right: TableRef{Name: "t3"}, Using: []string{"c4"}}},
		{{Kw: "JOIN", Right: TableRef{Name: "t2"}, Using: []string{"c4"}}, {Kw: "LEFT JOIN", Right: TableRef{Name: "t3"}, Using: []string{"c2", "c3"}}},
		{{Kw: "JOIN", Right: TableRef{Name: "t2"}, Using: []string{"c2", "c3", "c4"}}, {Kw: "JOIN", Right: TableRef{Name: "t3"}, Using: []string{"c5", "c6"}}, {Kw: "JOIN", Right: TableRef{Name: "t4"}, Using: []string{"c7"}}},
	} {
		s = base()
		s.Joins = js
		yield(fmt.Sprintf("join-using-twice-%d", m), s.Build())
	}
	s = base()
	s.From = []TableRef{{Name: "w2"}}
	s.With = &With{CTEs: []CTE{{Name: "w1", Cols: []string{"a1", "a2", "a3"}, Body: Sel{Items: []SelItem{{X: Int("1")}, {X: Int("2")}, {X: Int("3")}}}.Build()},
		{Name: "w2", Cols: []string{"a4"}, Body: Sel{Items: []SelItem{{X: Col("a1")}}, From: []TableRef{{Name: "w1"}}}.Build()}}}
	yield("cte-column-lists-twice", s.Build())
	s = base()
	s.Items = []SelItem{{X: Func("f1", []X{Col("c2"), Col("c3"), Col("c4")}, FuncOpts{})}, {X: Func("f2", []X{Col("c5")}, FuncOpts{})},
		{X: In(Col("c6"), false, []X{Int("1"), Int("2"), Int("3")})}, {X: In(Col("c7"), false, []X{Int("4")})}}
	yield("argument-lists-twice", s.Build())
	s = base()
	s.Items = []SelItem{{X: Func("SUM", []X{Col("c2")}, FuncOpts{Over: &Window{Partition: []X{Col("c3"), Col("c4")}, Order: []OrderItem{{X: Col("c5")}, {X: Col("c6")}}}})},
		{X: Func("SUM", []X{Col("c7")}, FuncOpts{Over: &Window{Partition: []X{Col("c8")}, Order: []OrderItem{{X: Col("c9")}}}})}}
	yield("window-lists-twice", s.Build())
	// CTE forms
	for _, rec := range []bool{false, true} {
		for _, cols := range [][]string{nil, {"a1"}, {"a1", "a2"}} {
			for _, mat := range []string{"", "MATERIALIZED", "NOT MATERIALIZED"} {
				s = base()
				s.From = []TableRef{{Name: "w1"}}
				body := Sel{Items: []SelItem{{X: Int("1")}, {X: Int("2")}}}.Build()
				s.With = &With{Recursive: rec, CTEs: []CTE{{Name: "w1", Cols: cols, Body: body, Materialized: mat}}}
				yield("cte", s.Build())
			}
		}
	}
	s = base()
	s.From = []TableRef{{Name: "w2"}}
	s.With = &With{CTEs: []CTE{{Name: "w1", Body: simpleSel("t5")}, {Name: "w2", Body: simpleSel("w1")}}}
	yield("cte-two", s.Build())
	s = base()
	s.From = []TableRef{{Name: "w1"}}
	s.With = &With{Recursive: true, CTEs: []CTE{{Name: "w1", Cols: []string{"a1"}, Body: SetOp(Sel{Items: []SelItem{{X: Int("1")}}}.Build(), "UNION", true,
		Sel{Items: []SelItem{{X: Bin("+", Col("a1"), Int("1"))}}, From: []TableRef{{Name: "w1"}}, Where: xp(Bin("<", Col("a1"), Int("5")))}.Build())}}}
	yield("cte-recursive-union", s.Build())
	// data-modifying CTE bodies: the body of a CTE is any statement, not only a query
	for _, dm := range []struct {
		n string
		b S
	}{
		{"delete", Del{Table: "t5", Where: xp(Bin("<", Col("c5"), Func("f5", nil, FuncOpts{}))), Returning: []X{Col("c6")}}.Build()},
		{"update", Upd{Table: "t5", Set: []Assign{{"c5", Func("f5", []X{Col("c7")}, FuncOpts{})}}, Where: xp(Bin("=", Col("c6"), Int("1"))), Returning: []X{Col("c6")}}.Build()},
		{"insert", Ins{Table: "t5", Cols: []string{"c5"}, Rows: [][]X{{Func("f5", nil, FuncOpts{})}}, Returning: []X{Col("c6")}}.Build()},
	} {
		s = base()
		s.From = []TableRef{{Name: "w1"}}
		s.With = &With{CTEs: []CTE{{Name: "w1", Body: dm.b}}}
		yield("cte-dml-"+dm.n, s.Build())
	}
	// window frame variants
	for _, ft := range []string{"ROWS", "RANGE"} {
		starts := []FrameBound{{Type: "UNBOUNDED PRECEDING"}, {Type: "PRECEDING", Value: xp(Int("2"))}, {Type: "CURRENT ROW"}}
		ends := []*FrameBound{nil, {Type: "CURRENT ROW"}, {Type: "FOLLOWING", Value: xp(Int("3"))}, {Type: "UNBOUNDED FOLLOWING"}}
		for _, st := range starts {
			for _, en := range ends {
				yield("frame", selItem(Func("SUM", []X{Col("c1")}, FuncOpts{Over: &Window{Order: []OrderItem{{X: Col("c2")}}, FrameType: ft, Start: st, End: en}})))
			}
		}
	}
}

// ClauseOptionPairs yields pairs of clause options that interact in the parser's clause loop
// (alias forms x join kinds x trailing clauses; ORDER BY forms x LIMIT / OFFSET / FETCH / FOR).
func ClauseOptionPairs(yield func(name string, s S)) {
	aliases := []TableRef{{Name: "t1"}, {Name: "t1", Alias: "a1"}, {Name: "t1", Alias: "a1", AsKw: true}, {Schema: "s1", Name: "t1", Alias: "a1"}}
	joins := []string{"JOIN", "LEFT JOIN", "LEFT OUTER JOIN", "RIGHT JOIN", "FULL OUTER JOIN", "CROSS JOIN", "NATURAL JOIN", "INNER JOIN"}
	for _, from := range aliases {
		for _, jk := range joins {
			for _, ra := range []TableRef{{Name: "t2"}, {Name: "t2", Alias: "a2"}, {Name: "t2", Alias: "a2", AsKw: true}} {
				for tail := 0; tail < 5; tail++ {
					s := Sel{Items: []SelItem{{X: Col("c1")}}, From: []TableRef{from}}
					j := Join{Kw: jk, Right: ra}
					if jk != "CROSS JOIN" && jk != "NATURAL JOIN" {
						if tail%2 == 0 {
							j.On = xp(Bin("=", Col("c1"), Col("c2")))
						} else {
							j.Using = []string{"c1"}
						}
					}
					s.Joins = []Join{j}
					switch tail {
					case 1:
						s.Where = xp(Bin(">", Col("c3"), Int("0")))
					case 2:
						s.GroupBy = []X{Col("c1")}
					case 3:
						s.OrderBy = []OrderItem{{X: Col("c1")}}
					case 4:
						s.Limit = ip(3)
					}
					yield("join-pairs", s.Build())
				}
			}
		}
	}
	for _, d := range []string{"", "DESC"} {
		for _, nl := range []string{"", "FIRST"} {
			for tail := 0; tail < 7; tail++ {
				s := Sel{Items: []SelItem{{X: Col("c1")}}, From: []TableRef{{Name: "t1"}}, OrderBy: []OrderItem{{X: Col("c1"), Dir: d, Nulls: nl}}}
				switch tail {
				case 1:
					s.Limit = ip(1)
				case 2:
					s.Limit, s.Offset = ip(1), ip(2)
				case 3:
					s.Offset = ip(2)
				case 4:
					s.Fetch = &Fetch{Type: "FIRST", N: 3}
				case 5:
					s.Offset, s.OffsetRows, s.Fetch = ip(2), true, &Fetch{Type: "NEXT", N: 3, WithTies: true}
				case 6:
					s.Limit, s.For = ip(1), &For{Lock: "UPDATE", SkipLocked: true}
				}
				yield("order-pairs", s.Build())
			}
		}
	}
	// set-operation chains of three with every ALL pattern and mixed operators
	ops := []string{"UNION", "EXCEPT", "INTERSECT"}
	for _, o1 := range ops {
		for _, o2 := range ops {
			for m := 0; m < 4; m++ {
				yield("setop-chain3", SetOp(SetOp(simpleSel("t1"), o1, m&1 != 0, simpleSel("t2")), o2, m&2 != 0, simpleSel("t3")))
			}
		}
	}
}

// QueryKinds yields the query statements used to fill statement-valued holes.
func QueryKinds(depth int, yield func(name string, q S)) {
	yield("plain", simpleSel("t6"))
	yield("where", Sel{Items: []SelItem{{X: Col("c7")}}, From: []TableRef{{Name: "t6"}}, Where: xp(Bin("=", Col("c8"), Int("1")))}.Build())
	yield("setop", SetOp(simpleSel("t6"), "UNION", false, simpleSel("t7")))
	yield("with", Sel{With: &With{CTEs: []CTE{{Name: "w6", Body: simpleSel("t6")}}}, Items: []SelItem{{X: Col("c7")}}, From: []TableRef{{Name: "w6"}}}.Build())
	yield("join", Sel{Items: []SelItem{{X: Col("c7")}}, From: []TableRef{{Name: "t6"}}, Joins: []Join{{Kw: "JOIN", Right: TableRef{Name: "t7"}, Using: []string{"c7"}}}}.Build())
	yield("group", Sel{Items: []SelItem{{X: Col("c7")}}, From: []TableRef{{Name: "t6"}}, GroupBy: []X{Col("c7")}, Having: xp(Bin(">", Func("COUNT", nil, FuncOpts{Star: true}), Int("1")))}.Build())
	yield("order-limit", Sel{Items: []SelItem{{X: Col("c7")}}, From: []TableRef{{Name: "t6"}}, OrderBy: []OrderItem{{X: Col("c7")}}, Limit: ip(1)}.Build())
	if depth > 0 {
		StmtHoles(depth-1, func(n string, s S) {
			if s.Kind == "select" || s.Kind == "setop" {
				yield("nested:"+n, s)
			}
		})
	}
}

// StmtHoles yields every statement-valued hole filled with every query kind.
func StmtHoles(depth int, yield func(name string, s S)) {
	QueryKinds(depth, func(qn string, q S) {
		isSel := q.Kind == "select" && q.N != nil
		plain := isSel && len(q.Toks) > 0 && q.Toks[0].S == "SELECT"
		yield("in-subquery:"+qn, selWhere(InSub(Col("c0"), false, q)))
		yield("not-in-subquery:"+qn, selWhere(InSub(Col("c0"), true, q)))
		yield("exists:"+qn, selWhere(Exists(false, q)))
		yield("not-exists:"+qn, selWhere(Exists(true, q)))
		yield("scalar:"+qn, selItem(Subq(q)))
		yield("scalar-cmp:"+qn, selWhere(Bin("=", Col("c0"), Subq(q))))
		yield("any:"+qn, selWhere(Quant(Col("c0"), "<", "ANY", q)))
		yield("all:"+qn, selWhere(Quant(Col("c0"), ">=", "ALL", q)))
		if plain {
			yield("derived:"+qn, Sel{Items: []SelItem{{X: Star()}}, From: []TableRef{{Sub: &q, Alias: "a5", AsKw: true}}}.Build())
			yield("join-derived:"+qn, Sel{Items: []SelItem{{X: Star()}}, From: []TableRef{{Name: "t0"}},
				Joins: []Join{{Kw: "JOIN", Right: TableRef{Sub: &q, Alias: "a5"}, On: xp(Bool("TRUE"))}}}.Build())
		}
		yield("cte-body:"+qn, Sel{With: &With{CTEs: []CTE{{Name: "w5", Body: q}}}, Items: []SelItem{{X: Star()}}, From: []TableRef{{Name: "w5"}}}.Build())
		if q.Kind == "select" && plain {
			yield("setop-left:"+qn, SetOp(q, "UNION", false, simpleSel("t0")))
			yield("setop-right:"+qn, SetOp(simpleSel("t0"), "EXCEPT", false, q))
		}
		yield("insert-select:"+qn, Ins{Table: "t0", Cols: []string{"c1"}, Query: &q}.Build())
		yield("create-view:"+qn, CreateView{Name: "v1", Query: q}.Build())
		yield("create-matview:"+qn, CreateMatView{Name: "v1", Query: q}.Build())
		yield("update-where-in:"+qn, Upd{Table: "t0", Set: []Assign{{"c1", Int("1")}}, Where: xp(InSub(Col("c0"), false, q))}.Build())
		yield("update-set-scalar:"+qn, Upd{Table: "t0", Set: []Assign{{"c1", Subq(q)}}}.Build())
		yield("delete-where-exists:"+qn, Del{Table: "t0", Where: xp(Exists(false, q))}.Build())
		yield("call-arg-scalar:"+qn, selItem(Func("f1", []X{Subq(q)}, FuncOpts{})))
		yield("case-scalar:"+qn, selItem(Case(nil, []When{{Exists(false, q), Int("1")}}, xp(Int("0")))))
		yield("having-in:"+qn, Sel{Items: []SelItem{{X: Col("c0")}}, From: []TableRef{{Name: "t0"}}, GroupBy: []X{Col("c0")}, Having: xp(InSub(Col("c0"), false, q))}.Build())
		yield("having-nogroup-in:"+qn, Sel{Items: []SelItem{{X: Func("COUNT", nil, FuncOpts{Star: true})}}, From: []TableRef{{Name: "t0"}}, Having: xp(InSub(Col("c0"), false, q))}.Build())
		yield("join-on-exists:"+qn, Sel{Items: []SelItem{{X: Col("c0")}}, From: []TableRef{{Name: "t0"}},
			Joins: []Join{{Kw: "JOIN", Right: TableRef{Name: "t1"}, On: xp(Exists(false, q))}}}.Build())
	})
}

// QueryTails yields every clause option of SELECT (each ends in a different clause form) as the query of every host
// that continues after the query: view options, materialised-view data options, an upsert clause, the closing
// parenthesis of a CTE body / derived table / IN sub-query.  What follows a query must be left to the host whatever
// the query's last clause is.
func QueryTails(yield func(name string, s S)) {
	seen := map[string]bool{}
	ClauseOptions(func(name string, q S) {
		if q.Kind != "select" || q.N == nil || len(q.Toks) == 0 || q.Toks[0].S != "SELECT" {
			return
		}
		if sql := q.SQL(); seen[sql] {
			return
		} else {
			seen[sql] = true
		}
		for _, wo := range []string{"CHECK OPTION", "CASCADED CHECK OPTION", "LOCAL CHECK OPTION"} {
			yield("view-option:"+name, CreateView{Name: "v1", Query: q, WithOption: wo}.Build())
		}
		yield("matview-data:"+name, CreateMatView{Name: "v1", Query: q, WithData: "WITH DATA"}.Build())
		yield("matview-no-data:"+name, CreateMatView{Name: "v1", Query: q, WithData: "WITH NO DATA"}.Build())
		q2 := q
		yield("insert-select-upsert:"+name, Ins{Table: "t0", Cols: []string{"c1"}, Query: &q2, OnConflict: &OnConflict{DoNothing: true}}.Build())
		yield("cte-body:"+name, Sel{With: &With{CTEs: []CTE{{Name: "w5", Body: q}}}, Items: []SelItem{{X: Star()}}, From: []TableRef{{Name: "w5"}}}.Build())
		yield("derived:"+name, Sel{Items: []SelItem{{X: Star()}}, From: []TableRef{{Sub: &q2, Alias: "a5", AsKw: true}}, Where: xp(Bin("=", Col("c0"), Int("1")))}.Build())
		yield("in-subquery:"+name, Sel{Items: []SelItem{{X: Col("c0")}}, From: []TableRef{{Name: "t0"}}, Where: xp(InSub(Col("c0"), false, q)), OrderBy: []OrderItem{{X: Col("c0")}}}.Build())
	})
}

// DMLCases yields clause subsets of INSERT / UPDATE / DELETE / MERGE.
func DMLCases(yield func(name string, s S)) {
	with := &With{CTEs: []CTE{{Name: "w1", Body: simpleSel("t9")}}}
	// rows of different lengths (the parser does not compare row arities): shorter first and longer first
	sq := Sel{Items: []SelItem{{X: Func("f3", []X{Col("c8")}, FuncOpts{})}}, From: []TableRef{{Name: "t8"}}}.Build()
	yield("insert-ragged-short-first", Ins{Table: "t1", Cols: []string{"c1"}, Rows: [][]X{{Int("1")}, {Int("2"), Col("c7"), Subq(sq)}}}.Build())
	yield("insert-ragged-long-first", Ins{Table: "t1", Rows: [][]X{{Int("1"), Col("c7"), Subq(sq)}, {Int("2")}, {Int("3"), Func("f4", []X{Col("c9")}, FuncOpts{})}}}.Build())
	for m := 0; m < 1<<5; m++ {
		s := Ins{Table: "t1", Rows: [][]X{{Int("1"), Str("s1")}}}
		if m&1 != 0 {
			s.Cols = []string{"c1", "c2"}
		}
		if m&2 != 0 {
			s.Rows = append(s.Rows, []X{Int("2"), Null()})
		}
		if m&4 != 0 {
			s.OnConflict = &OnConflict{DoNothing: true}
			if m&1 != 0 {
				s.OnConflict = &OnConflict{Target: []string{"c1"}, Set: []Assign{{"c2", Str("s2")}}}
			}
		}
		if m&8 != 0 {
			s.Returning = []X{Col("c1"), Col("c2")}
		}
		if m&16 != 0 {
			s.Schema = "s1"
		}
		yield("insert-values", s.Build())
		q := simpleSel("t2")
		s2 := s
		s2.Rows = nil
		s2.Query = &q
		yield("insert-select", s2.Build())
	}
	// the lists of the upsert clause with two and three elements (conflict target, assignments), with and without WHERE
	for nset := 2; nset <= 3; nset++ {
		set := []Assign{{"c2", Str("s2")}, {"c3", Bin("+", Col("c3"), Int("1"))}, {"c4", Func("f5", []X{Col("c5")}, FuncOpts{})}}[:nset]
		yield("insert-upsert-lists", Ins{Table: "t1", Cols: []string{"c1", "c2"}, Rows: [][]X{{Int("1"), Str("s1")}},
			OnConflict: &OnConflict{Target: []string{"c1"}, Set: set}}.Build())
		yield("insert-upsert-lists", Ins{Table: "t1", Cols: []string{"c1", "c2"}, Rows: [][]X{{Int("1"), Str("s1")}},
			OnConflict: &OnConflict{Target: []string{"c1", "c2"}, Set: set, Where: xp(Bin(">", Col("c6"), Int("0")))}, Returning: []X{Col("c1")}}.Build())
	}
	yield("insert-with", Ins{With: with, Table: "t1", Cols: []string{"c1"}, Query: func() *S { q := simpleSel("w1"); return &q }()}.Build())
	yield("insert-returning-star", Ins{Table: "t1", Rows: [][]X{{Int("1")}}, Returning: []X{Star()}}.Build())
	for m := 0; m < 1<<6; m++ {
		s := Upd{Table: "t1", Set: []Assign{{"c1", Int("1")}}}
		if m&1 != 0 {
			s.Set = append(s.Set, Assign{"c2", Bin("+", Col("c2"), Int("1"))})
		}
		if m&2 != 0 {
			s.Where = xp(Bin("=", Col("c3"), Int("3")))
		}
		if m&4 != 0 {
			s.Returning = []X{Col("c1")}
		}
		if m&8 != 0 {
			s.From = []TableRef{{Name: "t2"}}
		}
		if m&16 != 0 {
			s.With = with
		}
		if m&32 != 0 {
			s.Alias = "a1"
		}
		yield("update", s.Build())
	}
	for m := 0; m < 1<<5; m++ {
		s := Del{Table: "t1"}
		if m&1 != 0 {
			s.Where = xp(Bin("=", Col("c3"), Int("3")))
		}
		if m&2 != 0 {
			s.Returning = []X{Col("c1")}
		}
		if m&4 != 0 {
			s.Using = []TableRef{{Name: "t2"}}
		}
		if m&8 != 0 {
			s.With = with
		}
		if m&16 != 0 {
			s.Alias = "a1"
		}
		yield("delete", s.Build())
	}
	on := Bin("=", QCol("a1", "c1"), QCol("a2", "c1"))
	whens := []MergeWhen{
		{Type: "MATCHED", Action: "UPDATE", Set: []Assign{{"c2", QCol("a2", "c2")}}},
		{Type: "MATCHED", Action: "DELETE"},
		{Type: "NOT MATCHED", Action: "INSERT", Cols: []string{"c1", "c2"}, Vals: []X{QCol("a2", "c1"), QCol("a2", "c2")}},
		{Type: "NOT MATCHED", Action: "INSERT", Vals: []X{QCol("a2", "c1")}},
		{Type: "MATCHED", Cond: xp(Bin(">", QCol("a2", "c3"), Int("0"))), Action: "UPDATE", Set: []Assign{{"c2", Int("1")}, {"c3", Int("2")}}},
		{Type: "NOT MATCHED BY SOURCE", Action: "DELETE"},
	}
	for m := 1; m < 1<<len(whens); m++ {
		var ws []MergeWhen
		for i := range whens {
			if m&(1<<i) != 0 {
				ws = append(ws, whens[i])
			}
		}
		yield("merge", Mrg{Target: "t1", TargetAlias: "a1", TargetAs: m%2 == 0, Source: "t2", SourceAlias: "a2", On: on, Whens: ws}.Build())
	}
	yield("merge-noalias", Mrg{Target: "t1", Source: "t2", On: Bin("=", QCol("t1", "c1"), QCol("t2", "c1")), Whens: whens[:1]}.Build())
	// every documented (clause kind, action) combination, with and without a condition, alone and in every ordered pair
	cond := func() *X { return xp(Bin(">", QCol("a2", "c3"), Int("0"))) }
	set := []Assign{{"c2", QCol("a2", "c2")}}
	var combos []MergeWhen
	for _, c := range []*X{nil, cond()} {
		combos = append(combos,
			MergeWhen{Type: "MATCHED", Cond: c, Action: "UPDATE", Set: set},
			MergeWhen{Type: "MATCHED", Cond: c, Action: "DELETE"},
			MergeWhen{Type: "NOT MATCHED", Cond: c, Action: "INSERT", Cols: []string{"c1"}, Vals: []X{QCol("a2", "c1")}},
			MergeWhen{Type: "NOT MATCHED BY SOURCE", Cond: c, Action: "UPDATE", Set: set},
			MergeWhen{Type: "NOT MATCHED BY SOURCE", Cond: c, Action: "DELETE"},
		)
	}
	for i, a := range combos {
		yield("merge-combo", Mrg{Target: "t1", TargetAlias: "a1", Source: "t2", SourceAlias: "a2", On: on, Whens: []MergeWhen{a}}.Build())
		for j, b := range combos {
			if i != j {
				yield("merge-combo2", Mrg{Target: "t1", TargetAlias: "a1", Source: "t2", SourceAlias: "a2", On: on, Whens: []MergeWhen{a, b}}.Build())
			}
		}
	}
}

// HoleShapes yields every hole filled with every one-operator expression.
func HoleShapes(yield func(hole string, s S)) {
	for _, h := range Holes() {
		h := h
		if h.Arith {
			continue
		}
		Shapes1(func(x X) { yield(h.Name, h.Fill(x)) })
	}
}

// All yields the whole statement space for a tier, smallest sections first.
// The name is "section/sub"; statements may repeat across sections (callers de-duplicate).
func All(thorough bool, yield func(name string, s S)) {
	Shapes1(func(x X) { yield("shape1/where", selWhere(x)); yield("shape1/item", selItem(x)) })
	ClauseOptions(func(n string, s S) { yield("clause/"+n, s) })
	ClauseOptionPairs(func(n string, s S) { yield("clause2/"+n, s) })
	DDLCases(func(n string, s S) { yield("ddl/"+n, s) })
	DMLCases(func(n string, s S) { yield("dml/"+n, s) })
	HoleCases(func(h, r string, s S) { yield("hole/"+h+"/"+r, s) })
	Shapes2(func(x X) { yield("shape2/where", selWhere(x)); yield("shape2/item", selItem(x)) })
	SelectClauseSubsets(func(m int, s S) { yield("subsets/select", s) })
	StmtHoles(1, func(n string, s S) { yield("nest/"+n, s) })
	QueryTails(func(n string, s S) { yield("tail/"+n, s) })
	HoleShapes(func(h string, s S) { yield("holeshape/"+h, s) })
	ShapesN(3, func(x X) { yield("shape3/where", selWhere(x)) })
	if thorough {
		StmtHoles(2, func(n string, s S) { yield("nest2/"+n, s) })
		ShapesN(4, func(x X) { yield("shape4/where", selWhere(x)) })
	}
}
