// Package sqlgen is the model grammar: every production returns the SQL tokens,
// the tree the grammar prescribes (built from the library's own ast types), the
// features (productions) used and every identifier placed with its role.
package sqlgen

import (
	"strings"

	"github.com/ajitpratap0/GoSQLX/pkg/sql/ast"
)

// Tok is one lexeme of generated SQL.
type Tok struct {
	S    string
	Kw   bool // keyword (letter case may be varied by a layout)
	Call bool // "(" that follows a function name (natural layout glues it)
}

// Name is an identifier placed by the generator, with its role.
type Name struct {
	Role string // table | column | function | alias | cte | string
	Name string
	Qual string // qualifier for columns (t.c) / schema for tables
}

// Precedence classes of the reference table (higher binds tighter).
const (
	POr = iota + 1
	PAnd
	PNot
	PCmp
	PConcat
	PAdd
	PMul
	PJSON
	PUnary
	PPostfix // :: and []
	PPrimary
)

// X is a generated expression.
type X struct {
	Toks     []Tok // minimal parentheses (only those the reference precedence table requires)
	Full     []Tok // every operator node parenthesised
	N        ast.Expression
	P        int
	Feat     []string
	Names    []Name
	Ops      int  // number of operator nodes
	CastTail bool // ends in "::type" (a following "[" would be read as part of the type)
}

func kw(s string) Tok { return Tok{S: s, Kw: true} }
func pt(s string) Tok { return Tok{S: s} }

func kws(s string) []Tok {
	var out []Tok
	for _, w := range strings.Fields(s) {
		out = append(out, kw(w))
	}
	return out
}

func cat(parts ...[]Tok) []Tok {
	var out []Tok
	for _, p := range parts {
		out = append(out, p...)
	}
	return out
}

func paren(t []Tok) []Tok { return cat([]Tok{pt("(")}, t, []Tok{pt(")")}) }

func mergeFeat(fs ...[]string) []string {
	seen := map[string]bool{}
	var out []string
	for _, f := range fs {
		for _, s := range f {
			if !seen[s] {
				seen[s] = true
				out = append(out, s)
			}
		}
	}
	return out
}

func mergeNames(ns ...[]Name) []Name {
	var out []Name
	for _, n := range ns {
		out = append(out, n...)
	}
	return out
}

// ---------------------------------------------------------------- atoms

// Col is a column reference.
func Col(name string) X {
	t := []Tok{pt(name)}
	return X{Toks: t, Full: t, N: &ast.Identifier{Name: name}, P: PPrimary, Names: []Name{{Role: "column", Name: name}}}
}

// QuotedCol is a double-quoted column reference; the tree keeps the name without the quotes.
func QuotedCol(name string) X {
	t := []Tok{pt(`"` + strings.ReplaceAll(name, `"`, `""`) + `"`)}
	feat := []string{"expr.quoted-identifier"}
	switch strings.ToUpper(name) {
	case "SELECT", "FROM", "WHERE", "TABLE", "ORDER", "GROUP", "KEY", "INDEX":
		feat = append(feat, "expr.quoted-identifier.reserved-word")
	}
	return X{Toks: t, Full: t, N: &ast.Identifier{Name: name}, P: PPrimary, Feat: feat, Names: []Name{{Role: "column", Name: name}}}
}

// QCol is a qualified column reference t.c.
func QCol(tab, name string) X {
	t := []Tok{pt(tab), pt("."), pt(name)}
	return X{Toks: t, Full: t, N: &ast.Identifier{Name: name, Table: tab}, P: PPrimary,
		Feat: []string{"expr.qualified-column"}, Names: []Name{{Role: "column", Name: name, Qual: tab}}}
}

// Star is "*"; QStar is "t.*".
func Star() X {
	t := []Tok{pt("*")}
	return X{Toks: t, Full: t, N: &ast.Identifier{Name: "*"}, P: PPrimary}
}
func QStar(tab string) X {
	t := []Tok{pt(tab), pt("."), pt("*")}
	return X{Toks: t, Full: t, N: &ast.Identifier{Name: "*", Table: tab}, P: PPrimary, Feat: []string{"expr.qualified-star"}}
}

// Lit kinds.
func Int(v string) X {
	t := []Tok{pt(v)}
	return X{Toks: t, Full: t, N: &ast.LiteralValue{Value: v, Type: "int"}, P: PPrimary}
}
func Float(v string) X {
	t := []Tok{pt(v)}
	return X{Toks: t, Full: t, N: &ast.LiteralValue{Value: v, Type: "float"}, P: PPrimary, Feat: []string{"lit.float"}}
}
func Str(v string) X {
	t := []Tok{pt("'" + strings.ReplaceAll(v, "'", "''") + "'")}
	return X{Toks: t, Full: t, N: &ast.LiteralValue{Value: v, Type: "string"}, P: PPrimary, Names: []Name{{Role: "string", Name: v}}}
}
// StrRaw is a string literal written as raw (quotes included) whose value is v: forms with backslash escapes.
func StrRaw(raw, v string) X {
	t := []Tok{pt(raw)}
	return X{Toks: t, Full: t, N: &ast.LiteralValue{Value: v, Type: "string"}, P: PPrimary, Feat: []string{"lit.string-escape"}, Names: []Name{{Role: "string", Name: v}}}
}
func Bool(v string) X {
	t := []Tok{kw(v)}
	return X{Toks: t, Full: t, N: &ast.LiteralValue{Value: strings.ToUpper(v), Type: "bool"}, P: PPrimary, Feat: []string{"lit.bool"}}
}
func Null() X {
	t := []Tok{kw("NULL")}
	return X{Toks: t, Full: t, N: &ast.LiteralValue{Value: nil, Type: "null"}, P: PPrimary, Feat: []string{"lit.null"}}
}
func Placeholder(v string) X {
	t := []Tok{pt(v)}
	return X{Toks: t, Full: t, N: &ast.LiteralValue{Value: v, Type: "placeholder"}, P: PPrimary, Feat: []string{"lit.placeholder:" + v[:1]}}
}

// ---------------------------------------------------------------- operators

// BinOp describes a binary operator of the catalogue.
type BinOp struct {
	Sym   string
	P     int
	Word  bool
	Class string
}

// BinOps is the binary-operator catalogue.
var BinOps = []BinOp{
	{"OR", POr, true, "or"}, {"AND", PAnd, true, "and"},
	{"=", PCmp, false, "cmp"}, {"<>", PCmp, false, "cmp"}, {"!=", PCmp, false, "cmp"}, {"<", PCmp, false, "cmp"},
	{">", PCmp, false, "cmp"}, {"<=", PCmp, false, "cmp"}, {">=", PCmp, false, "cmp"},
	{"~", PCmp, false, "cmp-regex"}, {"~*", PCmp, false, "cmp-regex"}, {"!~", PCmp, false, "cmp-regex"}, {"!~*", PCmp, false, "cmp-regex"},
	{"LIKE", PCmp, true, "like"}, {"ILIKE", PCmp, true, "like"},
	{"||", PConcat, false, "concat"},
	{"+", PAdd, false, "add"}, {"-", PAdd, false, "add"},
	{"*", PMul, false, "mul"}, {"/", PMul, false, "mul"}, {"%", PMul, false, "mul"},
	{"->", PJSON, false, "json"}, {"->>", PJSON, false, "json"}, {"#>", PJSON, false, "json"}, {"#>>", PJSON, false, "json"},
	{"@>", PJSON, false, "json"}, {"<@", PJSON, false, "json"}, {"?", PJSON, false, "json"}, {"?|", PJSON, false, "json"},
	{"?&", PJSON, false, "json"}, {"#-", PJSON, false, "json"},
}

// OpBySym finds an operator.
func OpBySym(s string) BinOp {
	for _, o := range BinOps {
		if o.Sym == s {
			return o
		}
	}
	panic("unknown operator " + s)
}

func clsOf(x X) string {
	switch x.P {
	case POr:
		return "or"
	case PAnd:
		return "and"
	case PNot:
		return "not"
	case PCmp:
		return "cmp"
	case PConcat:
		return "concat"
	case PAdd:
		return "add"
	case PMul:
		return "mul"
	case PJSON:
		return "json"
	case PUnary:
		return "sign"
	case PPostfix:
		return "postfix"
	}
	return "primary"
}

// needParen decides, from the reference precedence table only, whether an
// operand must be parenthesised to keep the model tree.  Comparison-class
// operators are treated as non-associative (both operands parenthesised at
// equal precedence) and operators whose relative precedence differs between
// SQL dialects (|| and the JSON family against arithmetic) are always
// parenthesised when mixed, so that the rendering is unambiguous under every
// standard reading.
func needParen(op BinOp, child X, right bool) bool {
	if op.P == PJSON {
		// JSON operators: only primaries and (on the left) a JSON chain go unparenthesised;
		// their precedence against sign, :: and [] differs between dialects
		if child.P == PPrimary || (child.P == PJSON && !right) {
			return false
		}
		return true
	}
	if child.P >= PUnary {
		return false
	}
	if child.P < op.P {
		return true
	}
	if child.P == op.P {
		if op.P == PCmp {
			return true
		}
		return right
	}
	// child binds tighter by the table; still parenthesise dialect-dependent mixes
	amb := func(p int) bool { return p == PConcat || p == PJSON }
	arith := func(p int) bool { return p == PAdd || p == PMul || p == PConcat || p == PJSON }
	if (amb(op.P) && arith(child.P)) || (amb(child.P) && arith(op.P)) {
		return true
	}
	return false
}

// Bin builds l op r.
func Bin(sym string, l, r X) X {
	op := OpBySym(sym)
	lt, rt := l.Toks, r.Toks
	parens := false
	if needParen(op, l, false) {
		lt = paren(lt)
		parens = true
	}
	if needParen(op, r, true) {
		rt = paren(rt)
		parens = true
	}
	o := pt(sym)
	if op.Word {
		o = kw(sym)
	}
	lf, rf := l.Full, r.Full
	if l.Ops > 0 {
		lf = paren(lf)
	}
	if r.Ops > 0 {
		rf = paren(rf)
	}
	feat := []string{"expr.bin:" + op.Class}
	if op.Class == "cmp" || op.Class == "cmp-regex" || op.Class == "like" {
		if r.P < PPrimary || r.Ops > 0 {
			feat = append(feat, "expr."+op.Class+".rhs:"+clsOf(r))
		}
	}
	if l.Ops > 0 || r.Ops > 0 {
		feat = append(feat, "expr.nest:"+op.Class+"<"+clsOf(l)+","+clsOf(r))
	}
	if parens {
		feat = append(feat, "expr.parens-required")
	}
	return X{
		Toks: cat(lt, []Tok{o}, rt), Full: cat(lf, []Tok{o}, rf),
		N: &ast.BinaryExpression{Left: l.N, Operator: sym, Right: r.N},
		P: op.P, Ops: l.Ops + r.Ops + 1,
		Feat:  mergeFeat(feat, l.Feat, r.Feat),
		Names: mergeNames(l.Names, r.Names),
	}
}

// NotLike builds l NOT LIKE r.
func NotLike(sym string, l, r X) X {
	x := Bin(sym, l, r)
	op := OpBySym(sym)
	lt, rt := l.Toks, r.Toks
	if needParen(op, l, false) {
		lt = paren(lt)
	}
	if needParen(op, r, true) {
		rt = paren(rt)
	}
	lf, rf := l.Full, r.Full
	if l.Ops > 0 {
		lf = paren(lf)
	}
	if r.Ops > 0 {
		rf = paren(rf)
	}
	x.Toks = cat(lt, []Tok{kw("NOT"), kw(sym)}, rt)
	x.Full = cat(lf, []Tok{kw("NOT"), kw(sym)}, rf)
	x.N.(*ast.BinaryExpression).Not = true
	x.Feat = mergeFeat([]string{"expr.not-like", "expr.not-like:" + sym}, x.Feat)
	return x
}

// Not builds NOT x.
func Not(x X) X {
	t := x.Toks
	fs := []string{"expr.not", "expr.nest:not<" + clsOf(x)}
	if x.P < PNot {
		t = paren(t)
		fs = append(fs, "expr.parens-required")
	}
	f := x.Full
	if x.Ops > 0 {
		f = paren(f)
	}
	return X{Toks: cat([]Tok{kw("NOT")}, t), Full: cat([]Tok{kw("NOT")}, f),
		N: &ast.UnaryExpression{Operator: ast.Not, Expr: x.N}, P: PNot, Ops: x.Ops + 1,
		Feat: mergeFeat(fs, x.Feat), Names: x.Names}
}

// Neg builds -x / +x.
func Neg(sign string, x X) X {
	t := x.Toks
	fs := []string{"expr.sign"}
	if x.P < PUnary || x.P == PUnary {
		t = paren(t)
		fs = append(fs, "expr.parens-required")
	}
	f := x.Full
	if x.Ops > 0 {
		f = paren(f)
	}
	op := ast.Minus
	if sign == "+" {
		op = ast.Plus
	}
	return X{Toks: cat([]Tok{pt(sign)}, t), Full: cat([]Tok{pt(sign)}, f),
		N: &ast.UnaryExpression{Operator: op, Expr: x.N}, P: PUnary, Ops: x.Ops + 1,
		Feat: mergeFeat(fs, x.Feat), Names: x.Names}
}

func operandCmp(x X) ([]Tok, []Tok, []string) {
	t := x.Toks
	var pf []string
	if x.P <= PCmp {
		t = paren(t)
		pf = []string{"expr.parens-required"}
	}
	f := x.Full
	if x.Ops > 0 {
		f = paren(f)
	}
	return t, f, pf
}

// IsNull builds x IS [NOT] NULL.
func IsNull(x X, not bool) X {
	t, f, pf := operandCmp(x)
	tail := kws("IS NULL")
	feat := "expr.is-null"
	if not {
		tail = kws("IS NOT NULL")
		feat = "expr.is-not-null"
	}
	return X{Toks: cat(t, tail), Full: cat(f, tail),
		N: &ast.BinaryExpression{Left: x.N, Operator: "IS NULL", Right: &ast.LiteralValue{Value: nil, Type: "null"}, Not: not},
		P: PCmp, Ops: x.Ops + 1, Feat: mergeFeat([]string{feat}, pf, x.Feat), Names: x.Names}
}

func commaList(xs []X, full bool) []Tok {
	var out []Tok
	for i, x := range xs {
		if i > 0 {
			out = append(out, pt(","))
		}
		if full {
			out = append(out, x.Full...)
		} else {
			out = append(out, x.Toks...)
		}
	}
	return out
}

func exprs(xs []X) []ast.Expression {
	var out []ast.Expression
	for _, x := range xs {
		out = append(out, x.N)
	}
	return out
}

func allFeat(xs []X) []string {
	var fs [][]string
	for _, x := range xs {
		fs = append(fs, x.Feat)
	}
	return mergeFeat(fs...)
}

func allNames(xs []X) []Name {
	var out []Name
	for _, x := range xs {
		out = append(out, x.Names...)
	}
	return out
}

func sumOps(xs []X) int {
	n := 0
	for _, x := range xs {
		n += x.Ops
	}
	return n
}

// In builds x [NOT] IN (list).
func In(x X, not bool, list []X) X {
	t, f, pf := operandCmp(x)
	head := kws("IN")
	feat := "expr.in-list"
	if not {
		head = kws("NOT IN")
		feat = "expr.not-in-list"
	}
	return X{Toks: cat(t, head, paren(commaList(list, false))), Full: cat(f, head, paren(commaList(list, true))),
		N: &ast.InExpression{Expr: x.N, List: exprs(list), Not: not}, P: PCmp, Ops: x.Ops + sumOps(list) + 1,
		Feat: mergeFeat([]string{feat}, pf, x.Feat, allFeat(list)), Names: mergeNames(x.Names, allNames(list))}
}

// InSub builds x [NOT] IN (subquery).
func InSub(x X, not bool, q S) X {
	t, f, pf := operandCmp(x)
	head := kws("IN")
	feat := "expr.in-subquery"
	if not {
		head = kws("NOT IN")
		feat = "expr.not-in-subquery"
	}
	return X{Toks: cat(t, head, paren(q.Toks)), Full: cat(f, head, paren(q.Toks)),
		N: &ast.InExpression{Expr: x.N, Subquery: q.N, Not: not}, P: PCmp, Ops: x.Ops + 1,
		Feat: mergeFeat([]string{feat, "expr.subquery-body:" + q.Kind}, pf, x.Feat, q.Feat), Names: mergeNames(x.Names, q.Names)}
}

// Between builds x [NOT] BETWEEN lo AND hi.  Bounds below the additive level are parenthesised.
func Between(x X, not bool, lo, hi X) X {
	t, f, pf := operandCmp(x)
	b := func(y X) ([]Tok, []Tok) {
		yt := y.Toks
		if y.P <= PCmp || y.P == PConcat || y.P == PJSON {
			yt = paren(yt)
			pf = []string{"expr.parens-required"}
		}
		yf := y.Full
		if y.Ops > 0 {
			yf = paren(yf)
		}
		return yt, yf
	}
	lt, lf := b(lo)
	ht, hf := b(hi)
	head := kws("BETWEEN")
	feat := "expr.between"
	if not {
		head = kws("NOT BETWEEN")
		feat = "expr.not-between"
	}
	fs := []string{feat}
	if lo.Ops > 0 || hi.Ops > 0 {
		fs = append(fs, "expr.between.bound:"+clsOf(lo)+","+clsOf(hi))
	}
	return X{Toks: cat(t, head, lt, kws("AND"), ht), Full: cat(f, head, lf, kws("AND"), hf),
		N: &ast.BetweenExpression{Expr: x.N, Lower: lo.N, Upper: hi.N, Not: not}, P: PCmp, Ops: x.Ops + lo.Ops + hi.Ops + 1,
		Feat: mergeFeat(fs, pf, x.Feat, lo.Feat, hi.Feat), Names: mergeNames(x.Names, lo.Names, hi.Names)}
}

// Exists builds [NOT] EXISTS (q).
func Exists(not bool, q S) X {
	t := cat(kws("EXISTS"), paren(q.Toks))
	var n ast.Expression = &ast.ExistsExpression{Subquery: q.N}
	feat := "expr.exists"
	p := PPrimary
	if not {
		t = cat(kws("NOT"), t)
		n = &ast.BinaryExpression{Left: n, Operator: "NOT", Not: true}
		feat = "expr.not-exists"
		p = PNot
	}
	return X{Toks: t, Full: t, N: n, P: p, Ops: 1, Feat: mergeFeat([]string{feat, "expr.subquery-body:" + q.Kind}, q.Feat), Names: q.Names}
}

// Subq builds a scalar sub-query (q).
func Subq(q S) X {
	t := paren(q.Toks)
	return X{Toks: t, Full: t, N: &ast.SubqueryExpression{Subquery: q.N}, P: PPrimary,
		Feat: mergeFeat([]string{"expr.scalar-subquery", "expr.subquery-body:" + q.Kind}, q.Feat), Names: q.Names}
}

// Quant builds x op ANY|ALL (q).
func Quant(x X, op, quant string, q S) X {
	t, f, pf := operandCmp(x)
	tail := cat([]Tok{pt(op), kw(quant)}, paren(q.Toks))
	var n ast.Expression
	if quant == "ANY" {
		n = &ast.AnyExpression{Expr: x.N, Operator: op, Subquery: q.N}
	} else {
		n = &ast.AllExpression{Expr: x.N, Operator: op, Subquery: q.N}
	}
	return X{Toks: cat(t, tail), Full: cat(f, tail), N: n, P: PCmp, Ops: x.Ops + 1,
		Feat: mergeFeat([]string{"expr.quantified:" + quant, "expr.subquery-body:" + q.Kind}, pf, x.Feat, q.Feat), Names: mergeNames(x.Names, q.Names)}
}

// OrderItem is one ORDER BY element.
type OrderItem struct {
	X     X
	Dir   string // "", ASC, DESC
	Nulls string // "", FIRST, LAST
}

func orderToks(items []OrderItem, full bool) []Tok {
	var out []Tok
	for i, it := range items {
		if i > 0 {
			out = append(out, pt(","))
		}
		if full {
			out = append(out, it.X.Full...)
		} else {
			out = append(out, it.X.Toks...)
		}
		if it.Dir != "" {
			out = append(out, kw(it.Dir))
		}
		if it.Nulls != "" {
			out = append(out, kw("NULLS"), kw(it.Nulls))
		}
	}
	return out
}

func orderAST(items []OrderItem) []ast.OrderByExpression {
	var out []ast.OrderByExpression
	for _, it := range items {
		o := ast.OrderByExpression{Expression: it.X.N, Ascending: it.Dir != "DESC"}
		if it.Nulls != "" {
			b := it.Nulls == "FIRST"
			o.NullsFirst = &b
		}
		out = append(out, o)
	}
	return out
}

func orderFeat(items []OrderItem, where string) []string {
	var fs [][]string
	for _, it := range items {
		fs = append(fs, it.X.Feat)
		if it.Dir != "" {
			fs = append(fs, []string{where + ".dir:" + it.Dir})
		}
		if it.Nulls != "" {
			fs = append(fs, []string{where + ".nulls:" + it.Nulls})
		}
	}
	return mergeFeat(fs...)
}

func orderNames(items []OrderItem) []Name {
	var out []Name
	for _, it := range items {
		out = append(out, it.X.Names...)
	}
	return out
}

// FrameBound is one bound of a window frame.
type FrameBound struct {
	Type  string // UNBOUNDED PRECEDING | PRECEDING | CURRENT ROW | FOLLOWING | UNBOUNDED FOLLOWING
	Value *X
}

// Window is an OVER (...) specification.
type Window struct {
	Partition []X
	Order     []OrderItem
	FrameType string // "", ROWS, RANGE
	Start     FrameBound
	End       *FrameBound
}

// FuncOpts are the optional parts of a call.
type FuncOpts struct {
	Distinct    bool
	Star        bool // f(*)
	OrderBy     []OrderItem
	Filter      *X
	WithinGroup []OrderItem
	Over        *Window
}

func boundToks(b FrameBound, full bool) []Tok {
	if b.Value != nil {
		if full {
			return cat(b.Value.Full, kws(b.Type))
		}
		return cat(b.Value.Toks, kws(b.Type))
	}
	return kws(b.Type)
}

func boundAST(b FrameBound) ast.WindowFrameBound {
	w := ast.WindowFrameBound{Type: b.Type}
	if b.Value != nil {
		w.Value = b.Value.N
	}
	return w
}

// Func builds name(args) with options.
func Func(name string, args []X, o FuncOpts) X {
	build := func(full bool) []Tok {
		var in []Tok
		if o.Distinct {
			in = append(in, kw("DISTINCT"))
		}
		if o.Star {
			in = append(in, pt("*"))
		}
		in = append(in, commaList(args, full)...)
		if len(o.OrderBy) > 0 {
			in = cat(in, kws("ORDER BY"), orderToks(o.OrderBy, full))
		}
		t := cat([]Tok{pt(name), {S: "(", Call: true}}, in, []Tok{pt(")")})
		if len(o.WithinGroup) > 0 {
			t = cat(t, kws("WITHIN GROUP"), paren(cat(kws("ORDER BY"), orderToks(o.WithinGroup, full))))
		}
		if o.Filter != nil {
			ft := o.Filter.Toks
			if full {
				ft = o.Filter.Full
			}
			t = cat(t, kws("FILTER"), paren(cat(kws("WHERE"), ft)))
		}
		if o.Over != nil {
			var w []Tok
			if len(o.Over.Partition) > 0 {
				w = cat(w, kws("PARTITION BY"), commaList(o.Over.Partition, full))
			}
			if len(o.Over.Order) > 0 {
				w = cat(w, kws("ORDER BY"), orderToks(o.Over.Order, full))
			}
			if o.Over.FrameType != "" {
				w = append(w, kw(o.Over.FrameType))
				if o.Over.End != nil {
					w = cat(w, kws("BETWEEN"), boundToks(o.Over.Start, full), kws("AND"), boundToks(*o.Over.End, full))
				} else {
					w = cat(w, boundToks(o.Over.Start, full))
				}
			}
			t = cat(t, kws("OVER"), paren(w))
		}
		return t
	}
	fc := &ast.FunctionCall{Name: name, Arguments: exprs(args), Distinct: o.Distinct}
	feat := []string{"expr.call"}
	names := []Name{{Role: "function", Name: name}}
	names = append(names, allNames(args)...)
	fs := [][]string{allFeat(args)}
	if o.Star {
		fc.Arguments = append([]ast.Expression{&ast.Identifier{Name: "*"}}, fc.Arguments...)
		feat = append(feat, "expr.call.star")
	}
	if o.Distinct {
		feat = append(feat, "expr.call.distinct")
	}
	if len(o.OrderBy) > 0 {
		fc.OrderBy = orderAST(o.OrderBy)
		feat = append(feat, "expr.call.order-by")
		fs = append(fs, orderFeat(o.OrderBy, "expr.call.order-by"))
		names = append(names, orderNames(o.OrderBy)...)
	}
	if len(o.WithinGroup) > 0 {
		fc.WithinGroup = orderAST(o.WithinGroup)
		feat = append(feat, "expr.call.within-group")
		fs = append(fs, orderFeat(o.WithinGroup, "expr.call.within-group"))
		names = append(names, orderNames(o.WithinGroup)...)
	}
	if o.Filter != nil {
		fc.Filter = o.Filter.N
		feat = append(feat, "expr.call.filter")
		fs = append(fs, o.Filter.Feat)
		names = append(names, o.Filter.Names...)
	}
	if o.Over != nil {
		w := &ast.WindowSpec{PartitionBy: exprs(o.Over.Partition), OrderBy: orderAST(o.Over.Order)}
		feat = append(feat, "expr.call.over")
		if len(o.Over.Partition) > 0 {
			feat = append(feat, "expr.call.over.partition")
			fs = append(fs, allFeat(o.Over.Partition))
			names = append(names, allNames(o.Over.Partition)...)
		}
		if len(o.Over.Order) > 0 {
			feat = append(feat, "expr.call.over.order")
			fs = append(fs, orderFeat(o.Over.Order, "expr.call.over.order"))
			names = append(names, orderNames(o.Over.Order)...)
		}
		if o.Over.FrameType != "" {
			fr := &ast.WindowFrame{Type: o.Over.FrameType, Start: boundAST(o.Over.Start)}
			feat = append(feat, "expr.call.over.frame:"+o.Over.FrameType)
			if o.Over.Start.Value != nil {
				feat = append(feat, "expr.call.over.frame.offset")
				fs = append(fs, o.Over.Start.Value.Feat)
			}
			if o.Over.End == nil {
				feat = append(feat, "expr.call.over.frame.single-bound")
			}
			if o.Over.End != nil {
				e := boundAST(*o.Over.End)
				fr.End = &e
				feat = append(feat, "expr.call.over.frame.between")
				if o.Over.End.Value != nil {
					feat = append(feat, "expr.call.over.frame.offset")
					fs = append(fs, o.Over.End.Value.Feat)
				}
			}
			w.FrameClause = fr
		}
		fc.Over = w
	}
	fs = append(fs, feat)
	ops := sumOps(args)
	return X{Toks: build(false), Full: build(true), N: fc, P: PPrimary, Ops: ops,
		Feat: mergeFeat(fs...), Names: names}
}

// When is one WHEN ... THEN ... arm.
type When struct{ Cond, Result X }

// Case builds CASE [operand] WHEN ... [ELSE ...] END.
func Case(operand *X, whens []When, els *X) X {
	build := func(full bool) []Tok {
		pick := func(x X) []Tok {
			if full {
				return x.Full
			}
			return x.Toks
		}
		t := kws("CASE")
		if operand != nil {
			t = cat(t, pick(*operand))
		}
		for _, w := range whens {
			t = cat(t, kws("WHEN"), pick(w.Cond), kws("THEN"), pick(w.Result))
		}
		if els != nil {
			t = cat(t, kws("ELSE"), pick(*els))
		}
		return cat(t, kws("END"))
	}
	c := &ast.CaseExpression{}
	feat := []string{"expr.case.searched"}
	var fs [][]string
	var names []Name
	ops := 0
	if operand != nil {
		c.Value = operand.N
		feat = []string{"expr.case.simple"}
		fs = append(fs, operand.Feat)
		names = append(names, operand.Names...)
		ops += operand.Ops
	}
	for _, w := range whens {
		c.WhenClauses = append(c.WhenClauses, ast.WhenClause{Condition: w.Cond.N, Result: w.Result.N})
		fs = append(fs, w.Cond.Feat, w.Result.Feat)
		names = append(names, w.Cond.Names...)
		names = append(names, w.Result.Names...)
		ops += w.Cond.Ops + w.Result.Ops
	}
	if els != nil {
		c.ElseClause = els.N
		feat = append(feat, "expr.case.else")
		fs = append(fs, els.Feat)
		names = append(names, els.Names...)
		ops += els.Ops
	}
	fs = append(fs, feat)
	return X{Toks: build(false), Full: build(true), N: c, P: PPrimary, Ops: ops, Feat: mergeFeat(fs...), Names: names}
}

// Cast builds CAST(x AS type).
func Cast(x X, typ string) X {
	tt := typeToks(typ)
	return X{Toks: cat([]Tok{kw("CAST"), {S: "(", Call: true}}, x.Toks, kws("AS"), tt, []Tok{pt(")")}),
		Full: cat([]Tok{kw("CAST"), {S: "(", Call: true}}, x.Full, kws("AS"), tt, []Tok{pt(")")}),
		N:    &ast.CastExpression{Expr: x.N, Type: typ}, P: PPrimary, Ops: x.Ops,
		Feat: mergeFeat([]string{"expr.cast"}, x.Feat), Names: x.Names}
}

func typeToks(typ string) []Tok {
	// "VARCHAR(10)" -> VARCHAR ( 10 ); "numeric(10,2)" -> numeric ( 10 , 2 )
	var out []Tok
	cur := ""
	flush := func() {
		if cur != "" {
			out = append(out, pt(cur))
			cur = ""
		}
	}
	for _, r := range typ {
		switch r {
		case '(', ')', ',':
			flush()
			t := pt(string(r))
			if r == '(' {
				t.Call = true
			}
			out = append(out, t)
		case ' ':
			flush()
		default:
			cur += string(r)
		}
	}
	flush()
	return out
}

// CastOp builds x::type.
func CastOp(x X, typ string) X {
	t := x.Toks
	var pf []string
	if x.P < PPostfix {
		t = paren(t)
		pf = []string{"expr.parens-required"}
	}
	f := x.Full
	if x.Ops > 0 {
		f = paren(f)
	}
	tt := typeToks(typ)
	return X{Toks: cat(t, []Tok{pt("::")}, tt), Full: cat(f, []Tok{pt("::")}, tt),
		N: &ast.CastExpression{Expr: x.N, Type: typ}, P: PPostfix, Ops: x.Ops + 1, CastTail: true,
		Feat: mergeFeat([]string{"expr.cast-op"}, pf, x.Feat), Names: x.Names}
}

// Interval builds INTERVAL 'v'.
func Interval(v string) X {
	t := []Tok{kw("INTERVAL"), pt("'" + v + "'")}
	return X{Toks: t, Full: t, N: &ast.IntervalExpression{Value: v}, P: PPrimary, Feat: []string{"expr.interval"},
		Names: []Name{{Role: "string", Name: v}}}
}

// Array builds ARRAY[...].
func Array(els []X) X {
	return X{Toks: cat([]Tok{kw("ARRAY"), {S: "[", Call: true}}, commaList(els, false), []Tok{pt("]")}),
		Full: cat([]Tok{kw("ARRAY"), {S: "[", Call: true}}, commaList(els, true), []Tok{pt("]")}),
		N:    &ast.ArrayConstructorExpression{Elements: exprs(els)}, P: PPrimary, Ops: sumOps(els),
		Feat: mergeFeat([]string{"expr.array"}, allFeat(els)), Names: allNames(els)}
}

// ArraySub builds ARRAY(q) for a SELECT q.
func ArraySub(q S) X {
	sel, _ := q.N.(*ast.SelectStatement)
	t := cat([]Tok{kw("ARRAY"), {S: "(", Call: true}}, q.Toks, []Tok{pt(")")})
	return X{Toks: t, Full: t, N: &ast.ArrayConstructorExpression{Subquery: sel}, P: PPrimary,
		Feat: mergeFeat([]string{"expr.array", "expr.array-subquery", "expr.subquery-body:" + q.Kind}, q.Feat), Names: q.Names}
}

// Subscript builds x[i].
func Subscript(x X, idx X) X {
	t := x.Toks
	var pf []string
	if x.P < PPostfix || x.CastTail {
		t = paren(t)
		pf = []string{"expr.parens-required"}
	}
	f := x.Full
	if x.Ops > 0 {
		f = paren(f)
	}
	// a[1][2] is a subscript of a subscript (one index per node)
	var n ast.Expression = &ast.ArraySubscriptExpression{Array: x.N, Indices: []ast.Expression{idx.N}}
	return X{Toks: cat(t, []Tok{{S: "[", Call: true}}, idx.Toks, []Tok{pt("]")}), Full: cat(f, []Tok{{S: "[", Call: true}}, idx.Full, []Tok{pt("]")}),
		N: n, P: PPostfix, Ops: x.Ops + idx.Ops + 1,
		Feat: mergeFeat([]string{"expr.subscript"}, pf, x.Feat, idx.Feat), Names: mergeNames(x.Names, idx.Names)}
}

// Slice builds x[lo:hi].
func Slice(x X, lo, hi *X) X {
	t := x.Toks
	var pf []string
	if x.P < PPostfix || x.CastTail {
		t = paren(t)
		pf = []string{"expr.parens-required"}
	}
	f := x.Full
	if x.Ops > 0 {
		f = paren(f)
	}
	n := &ast.ArraySliceExpression{Array: x.N}
	var mt, mf []Tok
	fs := [][]string{{"expr.slice"}, pf, x.Feat}
	names := x.Names
	ops := x.Ops + 1
	if lo != nil {
		n.Start = lo.N
		mt, mf = cat(mt, lo.Toks), cat(mf, lo.Full)
		fs = append(fs, lo.Feat)
		names = mergeNames(names, lo.Names)
		ops += lo.Ops
	}
	mt, mf = append(mt, pt(":")), append(mf, pt(":"))
	if hi != nil {
		n.End = hi.N
		mt, mf = cat(mt, hi.Toks), cat(mf, hi.Full)
		fs = append(fs, hi.Feat)
		names = mergeNames(names, hi.Names)
		ops += hi.Ops
	}
	return X{Toks: cat(t, []Tok{{S: "[", Call: true}}, mt, []Tok{pt("]")}), Full: cat(f, []Tok{{S: "[", Call: true}}, mf, []Tok{pt("]")}),
		N: n, P: PPostfix, Ops: ops, Feat: mergeFeat(fs...), Names: names}
}

// Tuple builds (a, b, ...), n >= 2.
func Tuple(els []X) X {
	return X{Toks: paren(commaList(els, false)), Full: paren(commaList(els, true)),
		N: &ast.TupleExpression{Expressions: exprs(els)}, P: PPrimary, Ops: sumOps(els),
		Feat: mergeFeat([]string{"expr.tuple"}, allFeat(els)), Names: allNames(els)}
}

// Extra wraps x in n redundant parenthesis pairs (same tree).
func Extra(x X, n int) X {
	y := x
	for i := 0; i < n; i++ {
		y.Toks = paren(y.Toks)
		y.Full = paren(y.Full)
	}
	y.P = PPrimary
	y.Feat = mergeFeat([]string{"expr.redundant-parens"}, x.Feat)
	return y
}
