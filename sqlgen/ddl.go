package sqlgen

import (
	"strings"

	"github.com/ajitpratap0/GoSQLX/pkg/sql/ast"
)

// ColCons is a column constraint.
type ColCons struct {
	Type     string // NOT NULL | NULL | UNIQUE | PRIMARY KEY | DEFAULT | CHECK | REFERENCES
	Default  *X
	Check    *X
	RefTable string
	RefCols  []string
	OnDelete string
	OnUpdate string
}

// ColDef is a column definition.
type ColDef struct {
	Name string
	Type string
	Cons []ColCons
}

// TableCons is a table constraint.
type TableCons struct {
	Name     string
	Type     string // PRIMARY KEY | UNIQUE | FOREIGN KEY | CHECK
	Cols     []string
	Check    *X
	RefTable string
	RefCols  []string
}

// CreateTable is CREATE TABLE.
type CreateTable struct {
	Temporary   bool
	IfNotExists bool
	Name        string
	Cols        []ColDef
	Constraints []TableCons
}

// Build renders CREATE TABLE.
func (c CreateTable) Build() S {
	t := kws("CREATE")
	n := &ast.CreateTableStatement{Name: c.Name, Temporary: c.Temporary, IfNotExists: c.IfNotExists}
	fs := [][]string{{"create-table"}}
	names := []Name{{Role: "table", Name: c.Name}}
	if c.Temporary {
		t = append(t, kw("TEMPORARY"))
		fs = append(fs, []string{"create-table.temporary"})
	}
	t = append(t, kw("TABLE"))
	if c.IfNotExists {
		t = cat(t, kws("IF NOT EXISTS"))
		fs = append(fs, []string{"create-table.if-not-exists"})
	}
	t = append(t, pt(c.Name))
	var in []Tok
	for i, col := range c.Cols {
		if i > 0 {
			in = append(in, pt(","))
		}
		in = append(in, pt(col.Name))
		in = cat(in, typeToks(col.Type))
		cd := ast.ColumnDef{Name: col.Name, Type: col.Type}
		if strings.Contains(col.Type, " ") {
			fs = append(fs, []string{"type.multi-word:" + strings.ReplaceAll(col.Type, " ", "-")})
		}
		for _, k := range col.Cons {
			cc := ast.ColumnConstraint{Type: k.Type}
			fs = append(fs, []string{"create-table.column." + strings.ToLower(strings.ReplaceAll(k.Type, " ", "-"))})
			switch k.Type {
			case "DEFAULT":
				in = cat(in, kws("DEFAULT"), k.Default.Toks)
				cc.Default = k.Default.N
				fs = append(fs, k.Default.Feat)
				names = append(names, k.Default.Names...)
			case "CHECK":
				in = cat(in, kws("CHECK"), paren(k.Check.Toks))
				cc.Check = k.Check.N
				fs = append(fs, k.Check.Feat)
				names = append(names, k.Check.Names...)
			case "REFERENCES":
				in = cat(in, kws("REFERENCES"), []Tok{pt(k.RefTable)})
				rd := &ast.ReferenceDefinition{Table: k.RefTable, Columns: k.RefCols, OnDelete: k.OnDelete, OnUpdate: k.OnUpdate}
				if len(k.RefCols) > 0 {
					in = cat(in, paren(identList(k.RefCols)))
				}
				if k.OnDelete != "" {
					in = cat(in, kws("ON DELETE"), kws(k.OnDelete))
					fs = append(fs, []string{"create-table.references.on-delete"})
				}
				if k.OnUpdate != "" {
					in = cat(in, kws("ON UPDATE"), kws(k.OnUpdate))
					fs = append(fs, []string{"create-table.references.on-update"})
				}
				cc.References = rd
				names = append(names, Name{Role: "table", Name: k.RefTable})
			default:
				in = cat(in, kws(k.Type))
			}
			cd.Constraints = append(cd.Constraints, cc)
		}
		n.Columns = append(n.Columns, cd)
	}
	for _, k := range c.Constraints {
		in = append(in, pt(","))
		tc := ast.TableConstraint{Name: k.Name, Type: k.Type, Columns: k.Cols}
		fs = append(fs, []string{"create-table.constraint." + strings.ToLower(strings.ReplaceAll(k.Type, " ", "-"))})
		if k.Name != "" {
			in = append(in, kw("CONSTRAINT"), pt(k.Name))
			fs = append(fs, []string{"create-table.constraint.named"})
		}
		switch k.Type {
		case "CHECK":
			in = cat(in, kws("CHECK"), paren(k.Check.Toks))
			tc.Check = k.Check.N
			fs = append(fs, k.Check.Feat)
			names = append(names, k.Check.Names...)
		case "FOREIGN KEY":
			in = cat(in, kws("FOREIGN KEY"), paren(identList(k.Cols)), kws("REFERENCES"), []Tok{pt(k.RefTable)})
			if len(k.RefCols) > 0 {
				in = cat(in, paren(identList(k.RefCols)))
			}
			tc.References = &ast.ReferenceDefinition{Table: k.RefTable, Columns: k.RefCols}
			names = append(names, Name{Role: "table", Name: k.RefTable})
		default:
			in = cat(in, kws(k.Type), paren(identList(k.Cols)))
		}
		n.Constraints = append(n.Constraints, tc)
	}
	t = cat(t, paren(in))
	return S{Toks: t, N: n, Feat: mergeFeat(fs...), Names: names, Kind: "create-table"}
}

// IdxCol is one indexed column.
type IdxCol struct {
	Name string
	Dir  string
}

// CreateIndex is CREATE INDEX.
type CreateIndex struct {
	Unique      bool
	IfNotExists bool
	Name        string
	Table       string
	Cols        []IdxCol
	Where       *X
}

// Build renders CREATE INDEX.
func (c CreateIndex) Build() S {
	t := kws("CREATE")
	n := &ast.CreateIndexStatement{Unique: c.Unique, IfNotExists: c.IfNotExists, Name: c.Name, Table: c.Table}
	fs := [][]string{{"create-index"}}
	names := []Name{{Role: "table", Name: c.Table}}
	if c.Unique {
		t = append(t, kw("UNIQUE"))
		fs = append(fs, []string{"create-index.unique"})
	}
	t = append(t, kw("INDEX"))
	if c.IfNotExists {
		t = cat(t, kws("IF NOT EXISTS"))
		fs = append(fs, []string{"create-index.if-not-exists"})
	}
	t = append(t, pt(c.Name), kw("ON"), pt(c.Table))
	var in []Tok
	for i, col := range c.Cols {
		if i > 0 {
			in = append(in, pt(","))
		}
		in = append(in, pt(col.Name))
		if col.Dir != "" {
			in = append(in, kw(col.Dir))
			fs = append(fs, []string{"create-index.direction"})
		}
		n.Columns = append(n.Columns, ast.IndexColumn{Column: col.Name, Direction: col.Dir})
		names = append(names, Name{Role: "column", Name: col.Name})
	}
	t = cat(t, paren(in))
	if c.Where != nil {
		t = cat(t, kws("WHERE"), c.Where.Toks)
		n.Where = c.Where.N
		fs = append(fs, []string{"create-index.where"}, c.Where.Feat)
		names = append(names, c.Where.Names...)
	}
	return S{Toks: t, N: n, Feat: mergeFeat(fs...), Names: names, Kind: "create-index"}
}

// CreateView is CREATE VIEW.
type CreateView struct {
	OrReplace bool
	Temporary bool
	Name      string
	Cols      []string
	Query     S
	// WithOption is "", "CHECK OPTION", "CASCADED CHECK OPTION" or "LOCAL CHECK OPTION"
	WithOption string
}

// Build renders CREATE VIEW.
func (c CreateView) Build() S {
	t := kws("CREATE")
	n := &ast.CreateViewStatement{OrReplace: c.OrReplace, Temporary: c.Temporary, Name: c.Name, Columns: c.Cols, Query: c.Query.N, WithOption: c.WithOption}
	fs := [][]string{{"create-view", "create-view.query:" + c.Query.Kind}, c.Query.Feat}
	if hasFeat(c.Query.Feat, "with") && c.Query.Toks[0].S == "WITH" {
		fs = append(fs, []string{"create-view.query-with"})
	}
	if c.OrReplace {
		t = cat(t, kws("OR REPLACE"))
		fs = append(fs, []string{"create-view.or-replace"})
	}
	if c.Temporary {
		t = append(t, kw("TEMPORARY"))
		fs = append(fs, []string{"create-view.temporary"})
	}
	t = append(t, kw("VIEW"), pt(c.Name))
	if len(c.Cols) > 0 {
		t = cat(t, paren(identList(c.Cols)))
		fs = append(fs, []string{"create-view.columns"})
	}
	t = cat(t, kws("AS"), c.Query.Toks)
	if c.WithOption != "" {
		t = cat(t, kws("WITH "+c.WithOption))
		fs = append(fs, []string{"create-view.with-option"})
	}
	return S{Toks: t, N: n, Feat: mergeFeat(fs...), Names: c.Query.Names, Kind: "create-view"}
}

// CreateMatView is CREATE MATERIALIZED VIEW.
type CreateMatView struct {
	IfNotExists bool
	Name        string
	Cols        []string
	Query       S
	WithData    string // "", "WITH DATA", "WITH NO DATA"
}

// Build renders CREATE MATERIALIZED VIEW.
func (c CreateMatView) Build() S {
	t := kws("CREATE MATERIALIZED VIEW")
	n := &ast.CreateMaterializedViewStatement{IfNotExists: c.IfNotExists, Name: c.Name, Columns: c.Cols, Query: c.Query.N}
	fs := [][]string{{"create-matview", "create-matview.query:" + c.Query.Kind}, c.Query.Feat}
	if hasFeat(c.Query.Feat, "with") && c.Query.Toks[0].S == "WITH" {
		fs = append(fs, []string{"create-matview.query-with"})
	}
	if c.IfNotExists {
		t = cat(t, kws("IF NOT EXISTS"))
		fs = append(fs, []string{"create-matview.if-not-exists"})
	}
	t = append(t, pt(c.Name))
	if len(c.Cols) > 0 {
		t = cat(t, paren(identList(c.Cols)))
		fs = append(fs, []string{"create-matview.columns"})
	}
	t = cat(t, kws("AS"), c.Query.Toks)
	if c.WithData != "" {
		t = cat(t, kws(c.WithData))
		b := c.WithData == "WITH DATA"
		n.WithData = &b
		fs = append(fs, []string{"create-matview." + strings.ToLower(strings.ReplaceAll(c.WithData, " ", "-"))})
	}
	return S{Toks: t, N: n, Feat: mergeFeat(fs...), Names: c.Query.Names, Kind: "create-matview"}
}

func simpleStmt(kind string, t []Tok, n ast.Statement, feat []string, names []Name) S {
	return S{Toks: t, N: n, Feat: feat, Names: names, Kind: kind}
}

// DDLCases yields the DDL surface.
func DDLCases(yield func(name string, s S)) {
	for m := 0; m < 4; m++ {
		yield("create-table-basic", CreateTable{Temporary: m&1 != 0, IfNotExists: m&2 != 0, Name: "t1",
			Cols: []ColDef{{Name: "c1", Type: "INT"}, {Name: "c2", Type: "VARCHAR(10)"}}}.Build())
	}
	colCons := []ColCons{
		{Type: "NOT NULL"}, {Type: "UNIQUE"}, {Type: "PRIMARY KEY"}, {Type: "NULL"},
		{Type: "DEFAULT", Default: xp(Int("0"))}, {Type: "DEFAULT", Default: xp(Str("s1"))},
		{Type: "CHECK", Check: xp(Bin(">", Col("c1"), Int("0")))},
		{Type: "REFERENCES", RefTable: "t2", RefCols: []string{"c9"}},
		{Type: "REFERENCES", RefTable: "t2", RefCols: []string{"c9"}, OnDelete: "CASCADE"},
		{Type: "REFERENCES", RefTable: "t2", RefCols: []string{"c9"}, OnDelete: "SET NULL", OnUpdate: "CASCADE"},
		{Type: "REFERENCES", RefTable: "t2"},
	}
	for _, k := range colCons {
		yield("create-table-colcons", CreateTable{Name: "t1", Cols: []ColDef{{Name: "c1", Type: "INT", Cons: []ColCons{k}}}}.Build())
	}
	for i := range colCons {
		for j := range colCons {
			if i != j && colCons[i].Type != colCons[j].Type {
				yield("create-table-colcons2", CreateTable{Name: "t1", Cols: []ColDef{{Name: "c1", Type: "INT", Cons: []ColCons{colCons[i], colCons[j]}}, {Name: "c2", Type: "TEXT"}}}.Build())
			}
		}
	}
	tabCons := []TableCons{
		{Type: "PRIMARY KEY", Cols: []string{"c1"}}, {Type: "UNIQUE", Cols: []string{"c1", "c2"}},
		{Name: "k1", Type: "UNIQUE", Cols: []string{"c1"}}, {Type: "CHECK", Check: xp(Bin(">", Col("c1"), Int("0")))},
		{Name: "k2", Type: "CHECK", Check: xp(Bin("<", Col("c1"), Col("c2")))},
		{Type: "FOREIGN KEY", Cols: []string{"c2"}, RefTable: "t2", RefCols: []string{"c9"}},
		{Name: "k3", Type: "FOREIGN KEY", Cols: []string{"c1", "c2"}, RefTable: "t2", RefCols: []string{"c8", "c9"}},
	}
	for m := 1; m < 1<<len(tabCons); m++ {
		var ks []TableCons
		for i := range tabCons {
			if m&(1<<i) != 0 {
				ks = append(ks, tabCons[i])
			}
		}
		if len(ks) > 2 {
			continue
		}
		yield("create-table-tabcons", CreateTable{Name: "t1", Cols: []ColDef{{Name: "c1", Type: "INT"}, {Name: "c2", Type: "INT"}}, Constraints: ks}.Build())
	}
	for _, ty := range []string{"INT", "INTEGER", "BIGINT", "SMALLINT", "TEXT", "VARCHAR(255)", "CHAR(3)", "DECIMAL(10,2)", "NUMERIC(10,2)", "BOOLEAN", "DATE", "TIMESTAMP", "FLOAT", "REAL", "DOUBLE PRECISION", "SERIAL", "UUID", "JSON", "JSONB"} {
		yield("create-table-type", CreateTable{Name: "t1", Cols: []ColDef{{Name: "c1", Type: ty}}}.Build())
	}
	for m := 0; m < 8; m++ {
		c := CreateIndex{Unique: m&1 != 0, IfNotExists: m&2 != 0, Name: "i1", Table: "t1", Cols: []IdxCol{{Name: "c1"}}}
		if m&4 != 0 {
			c.Where = xp(Bin(">", Col("c1"), Int("0")))
		}
		yield("create-index", c.Build())
	}
	yield("create-index-dirs", CreateIndex{Name: "i1", Table: "t1", Cols: []IdxCol{{Name: "c1", Dir: "DESC"}, {Name: "c2", Dir: "ASC"}, {Name: "c3"}}}.Build())
	for m := 0; m < 8; m++ {
		c := CreateView{OrReplace: m&1 != 0, Temporary: m&2 != 0, Name: "v1", Query: simpleSel("t1")}
		if m&4 != 0 {
			c.Cols = []string{"a1"}
		}
		yield("create-view", c.Build())
	}
	for _, wo := range []string{"CHECK OPTION", "CASCADED CHECK OPTION", "LOCAL CHECK OPTION"} {
		yield("create-view-option", CreateView{Name: "v1", Query: simpleSel("t1"), WithOption: wo}.Build())
	}
	for m := 0; m < 4; m++ {
		for _, wd := range []string{"", "WITH DATA", "WITH NO DATA"} {
			c := CreateMatView{IfNotExists: m&1 != 0, Name: "v1", Query: simpleSel("t1"), WithData: wd}
			if m&2 != 0 {
				c.Cols = []string{"a1", "a2"}
			}
			yield("create-matview", c.Build())
		}
	}
	for _, conc := range []bool{false, true} {
		for _, wd := range []string{"", "WITH DATA", "WITH NO DATA"} {
			t := kws("REFRESH MATERIALIZED VIEW")
			n := &ast.RefreshMaterializedViewStatement{Concurrently: conc, Name: "v1"}
			f := []string{"refresh-matview"}
			if conc {
				t = append(t, kw("CONCURRENTLY"))
				f = append(f, "refresh-matview.concurrently")
			}
			t = append(t, pt("v1"))
			if wd != "" {
				t = cat(t, kws(wd))
				b := wd == "WITH DATA"
				n.WithData = &b
				f = append(f, "refresh-matview."+strings.ToLower(strings.ReplaceAll(wd, " ", "-")))
			}
			yield("refresh", simpleStmt("refresh", t, n, f, nil))
		}
	}
	for _, ot := range []string{"TABLE", "VIEW", "INDEX", "MATERIALIZED VIEW"} {
		for _, ie := range []bool{false, true} {
			for _, names := range [][]string{{"t1"}, {"t1", "t2"}} {
				for _, cas := range []string{"", "CASCADE", "RESTRICT"} {
					t := cat(kws("DROP"), kws(ot))
					n := &ast.DropStatement{ObjectType: ot, IfExists: ie, Names: names, CascadeType: cas}
					f := []string{"drop", "drop:" + strings.ReplaceAll(ot, " ", "-")}
					if ie {
						t = cat(t, kws("IF EXISTS"))
						f = append(f, "drop.if-exists")
					}
					t = cat(t, identList(names))
					if len(names) > 1 {
						f = append(f, "drop.multiple")
					}
					if cas != "" {
						t = append(t, kw(cas))
						f = append(f, "drop."+strings.ToLower(cas))
					}
					var nm []Name
					if ot == "TABLE" {
						for _, x := range names {
							nm = append(nm, Name{Role: "table", Name: x})
						}
					}
					yield("drop", simpleStmt("drop", t, n, f, nm))
				}
			}
		}
	}
	// ALTER TABLE (the operations whose representation is unambiguous)
	alter := func(name string, tail []Tok, op *ast.AlterTableOperation, feat string) {
		t := cat(kws("ALTER TABLE"), []Tok{pt("t1")}, tail)
		yield("alter-table", simpleStmt("alter-table", t, &ast.AlterStatement{Type: ast.AlterTypeTable, Name: "t1", Operation: op},
			[]string{"alter-table", "alter-table." + feat}, []Name{{Role: "table", Name: "t1"}}))
	}
	alter("add-column", cat(kws("ADD COLUMN"), []Tok{pt("c9"), pt("INT")}), &ast.AlterTableOperation{Type: ast.AddColumn, ColumnDef: &ast.ColumnDef{Name: "c9", Type: "INT"}}, "add-column")
	alter("add-column-type-params", cat(kws("ADD COLUMN"), []Tok{pt("c9")}, typeToks("VARCHAR(10)")), &ast.AlterTableOperation{Type: ast.AddColumn, ColumnDef: &ast.ColumnDef{Name: "c9", Type: "VARCHAR(10)"}}, "add-column")
	alter("drop-column", cat(kws("DROP COLUMN"), []Tok{pt("c9")}), &ast.AlterTableOperation{Type: ast.DropColumn, ColumnName: &ast.Ident{Name: "c9"}}, "drop-column")
	alter("rename-table", cat(kws("RENAME TO"), []Tok{pt("t9")}), &ast.AlterTableOperation{Type: ast.RenameTable, NewTableName: ast.ObjectName{Name: "t9"}}, "rename-table")
	alter("add-constraint", cat(kws("ADD CONSTRAINT"), []Tok{pt("k1")}, kws("UNIQUE"), paren(identList([]string{"c1", "c2"}))),
		&ast.AlterTableOperation{Type: ast.AddConstraint, Constraint: &ast.TableConstraint{Name: "k1", Type: "UNIQUE", Columns: []string{"c1", "c2"}}}, "add-constraint")
	for _, tk := range []bool{false, true} {
		for _, names := range [][]string{{"t1"}, {"t1", "t2"}} {
			for _, id := range []string{"", "RESTART IDENTITY", "CONTINUE IDENTITY"} {
				for _, cas := range []string{"", "CASCADE", "RESTRICT"} {
					t := kws("TRUNCATE")
					f := []string{"truncate"}
					if tk {
						t = append(t, kw("TABLE"))
						f = append(f, "truncate.table-keyword")
					}
					n := &ast.TruncateStatement{Tables: names, RestartIdentity: id == "RESTART IDENTITY", ContinueIdentity: id == "CONTINUE IDENTITY", CascadeType: cas}
					t = cat(t, identList(names))
					if id != "" {
						t = cat(t, kws(id))
						f = append(f, "truncate."+strings.ToLower(strings.ReplaceAll(id, " ", "-")))
					}
					if cas != "" {
						t = append(t, kw(cas))
						f = append(f, "truncate."+strings.ToLower(cas))
					}
					var nm []Name
					for _, x := range names {
						nm = append(nm, Name{Role: "table", Name: x})
					}
					yield("truncate", simpleStmt("truncate", t, n, f, nm))
				}
			}
		}
	}
}

func hasFeat(fs []string, f string) bool {
	for _, x := range fs {
		if x == f {
			return true
		}
	}
	return false
}
