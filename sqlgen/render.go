package sqlgen

import (
	"fmt"
	"reflect"
	"regexp"
	"sort"
	"strings"
)

// Layouts understood by Render.
const (
	LNatural  = iota // single spaces, punctuation glued the way people write SQL
	LSpaced          // every lexeme separated by one space
	LLines           // every lexeme on its own line, keywords lower-case, CRLF every third break
	LComments        // block and line comments between lexemes, tabs, keywords in mixed case
	NLayouts
	// LComments2 puts two comments (separated by white space only) into every gap; it is
	// not part of the 0..NLayouts loop used by older checks
	LComments2 = NLayouts
)

func mixedCase(s string) string {
	b := []byte(strings.ToLower(s))
	for i := 0; i < len(b); i += 2 {
		if b[i] >= 'a' && b[i] <= 'z' {
			b[i] -= 32
		}
	}
	return string(b)
}

// Render joins tokens under a layout.
func Render(toks []Tok, layout int) string {
	var sb strings.Builder
	for i, t := range toks {
		s := t.S
		if t.Kw {
			switch layout {
			case LLines:
				s = strings.ToLower(s)
			case LComments:
				s = mixedCase(s)
			}
		}
		if i > 0 {
			prev := toks[i-1]
			switch layout {
			case LNatural:
				glue := false
				switch t.S {
				case ",", ")", "]", ".", "::", ":":
					glue = true
				}
				switch prev.S {
				case "(", "[", ".", "::", ":":
					glue = true
				}
				if t.Call {
					glue = true
				}
				if prev.S == ":" && !(len(t.S) > 0) {
					glue = true
				}
				if !glue {
					sb.WriteByte(' ')
				}
			case LSpaced:
				sb.WriteByte(' ')
			case LLines:
				if i%3 == 0 {
					sb.WriteString("\r\n")
				} else {
					sb.WriteString("\n  ")
				}
			case LComments2:
				switch i % 3 {
				case 0:
					sb.WriteString(" /* a */ /* b */ ")
				case 1:
					sb.WriteString(" -- a\n  -- b\n")
				default:
					sb.WriteString(" /* a */\n\n-- b\n\t")
				}
			case LComments:
				switch i % 4 {
				case 0:
					sb.WriteString(" /* c */ ")
				case 1:
					sb.WriteString(" -- c\n")
				case 2:
					sb.WriteString("\t")
				default:
					sb.WriteString("\n\n")
				}
			}
		}
		sb.WriteString(s)
	}
	return sb.String()
}

// SQL renders a statement in the natural layout.
func (s S) SQL() string { return Render(s.Toks, LNatural) }

// ---------------------------------------------------------------- canonical dump

var synthJoin = regexp.MustCompile(`^\(.*_with_\d+_joins\)$`)

// Dump produces the canonical text of a tree: type names and all non-zero
// exported fields, recursively; nil and empty slices identified; pointers and
// values identified; operator words and boolean literal text case-folded.
// Two representation artefacts are normalised: SelectStatement.TableName (a
// duplicate of From[0].Name kept for the pools) and JoinClause.Left (derived:
// the first FROM item or a synthetic "(t_with_N_joins)" name).
func Dump(v any) string {
	var sb strings.Builder
	dump(&sb, reflect.ValueOf(v), "")
	return sb.String()
}

func isZero(v reflect.Value) bool {
	switch v.Kind() {
	case reflect.Ptr, reflect.Interface:
		if v.IsNil() {
			return true
		}
		return false
	case reflect.Slice, reflect.Map:
		return v.Len() == 0
	case reflect.Struct:
		for i := 0; i < v.NumField(); i++ {
			if v.Type().Field(i).PkgPath != "" {
				continue
			}
			if !isZero(v.Field(i)) {
				return false
			}
		}
		return true
	}
	return v.IsZero()
}

func dump(sb *strings.Builder, v reflect.Value, field string) {
	if !v.IsValid() {
		sb.WriteString("nil")
		return
	}
	switch v.Kind() {
	case reflect.Ptr, reflect.Interface:
		if v.IsNil() {
			sb.WriteString("nil")
			return
		}
		dump(sb, v.Elem(), field)
	case reflect.Struct:
		t := v.Type()
		sb.WriteString(t.Name())
		sb.WriteByte('{')
		first := true
		for i := 0; i < v.NumField(); i++ {
			f := t.Field(i)
			if f.PkgPath != "" {
				continue
			}
			if t.Name() == "SelectStatement" && f.Name == "TableName" {
				continue
			}
			if t.Name() == "JoinClause" && f.Name == "Left" {
				continue
			}
			fv := v.Field(i)
			// *bool / *int distinguish "absent" from zero: print when non-nil
			if isZero(fv) && !(fv.Kind() == reflect.Ptr && !fv.IsNil()) {
				continue
			}
			if !first {
				sb.WriteString(", ")
			}
			first = false
			sb.WriteString(f.Name)
			sb.WriteByte(':')
			dump(sb, fv, t.Name()+"."+f.Name)
		}
		sb.WriteByte('}')
	case reflect.Slice, reflect.Array:
		sb.WriteByte('[')
		for i := 0; i < v.Len(); i++ {
			if i > 0 {
				sb.WriteString(", ")
			}
			dump(sb, v.Index(i), field)
		}
		sb.WriteByte(']')
	case reflect.Map:
		keys := v.MapKeys()
		sort.Slice(keys, func(a, b int) bool { return fmt.Sprint(keys[a]) < fmt.Sprint(keys[b]) })
		sb.WriteString("map[")
		for i, k := range keys {
			if i > 0 {
				sb.WriteString(", ")
			}
			fmt.Fprintf(sb, "%v:", k)
			dump(sb, v.MapIndex(k), field)
		}
		sb.WriteByte(']')
	case reflect.String:
		s := v.String()
		switch field {
		case "BinaryExpression.Operator", "AnyExpression.Operator", "AllExpression.Operator", "SetOperation.Operator",
			"JoinClause.Type", "WindowFrame.Type", "WindowFrameBound.Type", "FetchClause.FetchType", "ForClause.LockType",
			"MergeWhenClause.Type", "MergeAction.ActionType", "ColumnConstraint.Type", "TableConstraint.Type",
			"DropStatement.ObjectType", "DropStatement.CascadeType", "TruncateStatement.CascadeType", "IndexColumn.Direction",
			"ReferenceDefinition.OnDelete", "ReferenceDefinition.OnUpdate", "ExtractExpression.Field":
			s = strings.ToUpper(s)
		}
		fmt.Fprintf(sb, "%q", s)
	default:
		if v.CanInterface() {
			if st, ok := v.Interface().(fmt.Stringer); ok {
				fmt.Fprintf(sb, "%s", st.String())
				return
			}
		}
		fmt.Fprintf(sb, "%v", v.Interface())
	}
}

// DumpNorm is Dump plus folding of boolean literal text (TRUE/true).
func DumpNorm(v any) string {
	s := Dump(v)
	return boolLit.ReplaceAllStringFunc(s, strings.ToUpper)
}

var boolLit = regexp.MustCompile(`(?i)Value:"(true|false)", Type:"bool"`)

// FirstDiff returns a short description of where two dumps diverge.
func FirstDiff(want, got string) string {
	i := 0
	for i < len(want) && i < len(got) && want[i] == got[i] {
		i++
	}
	lo := i - 60
	if lo < 0 {
		lo = 0
	}
	hw, hg := i+80, i+80
	if hw > len(want) {
		hw = len(want)
	}
	if hg > len(got) {
		hg = len(got)
	}
	return fmt.Sprintf("at byte %d\n want: …%s\n got:  …%s", i, want[lo:hw], got[lo:hg])
}

// DiffPath gives a coarse, index-free path (Type.Field/Type.Field…) to the first
// difference between two dumps, used in violation signatures.
func DiffPath(want, got string) string {
	i := 0
	for i < len(want) && i < len(got) && want[i] == got[i] {
		i++
	}
	// walk want[:i] keeping a stack of "Type.Field" frames
	return pathAt(want, i)
}

func pathAt(s string, pos int) string {
	type frame struct{ typ, field string }
	var st []frame
	word := ""
	lastWord := ""
	inStr := false
	for i := 0; i < pos && i < len(s); i++ {
		c := s[i]
		if inStr {
			if c == '\\' {
				i++
				continue
			}
			if c == '"' {
				inStr = false
			}
			continue
		}
		switch {
		case c == '"':
			inStr = true
		case c == '{':
			st = append(st, frame{typ: word})
			word = ""
		case c == '}':
			if len(st) > 0 {
				st = st[:len(st)-1]
			}
			word = ""
		case c == ':':
			if len(st) > 0 {
				st[len(st)-1].field = word
			}
			lastWord = word
			word = ""
		case c == ',' || c == ' ' || c == '[' || c == ']':
			word = ""
		default:
			word += string(c)
		}
	}
	_ = lastWord
	var parts []string
	for _, f := range st {
		parts = append(parts, f.typ+"."+f.field)
	}
	if len(parts) > 4 {
		parts = parts[len(parts)-4:]
	}
	return strings.Join(parts, "/")
}
