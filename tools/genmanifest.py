#!/usr/bin/env python3
"""Generates /verif/MANIFEST.json from the table below (one entry per built check)."""
import json, os
ROOT = os.path.dirname(os.path.dirname(os.path.abspath(__file__)))
ALL = ["C%02d" % i for i in range(1, 21)]
CHECKS = {}

def check(pid, level, technique, text, note, design, engine="engine/common + sqlgen"):
    CHECKS[pid] = dict(property_id=pid, quick_cmd="./check %s quick" % pid, thorough_cmd="./check %s thorough" % pid,
        evidence_file="evidence/%s.json" % pid, replay_cmd_template="./check %s --replay {path}" % pid, engine=engine,
        level_claimed=dict(category=level, text=text, design_ref=design), level_note=note, technique=technique)

check("C03", "exploration",
      "bounded exhaustive enumeration of a model grammar (small-scope), executed on the real parser, reference-model tree comparison",
      "Every statement derivable from the model grammar within the stated bounds (all expression trees with <=2 operator nodes over the full operator catalogue, <=3/4 over precedence-class representatives, every expression hole x every representative, all clause subsets, nesting depth 1/2), in minimal and full parenthesisation and under 4 layouts, is parsed by gosqlx.Parse and the returned tree is compared field by field with the tree the generator prescribes.",
      "Trusted: the reference precedence table and expected-tree builders in sqlgen (dialect-dependent operator mixes are always parenthesised); the canonical dumper's two documented normalisations; small-scope hypothesis above the bounds.",
      "DESIGN.md §2.2, §3 C03")

NOT_BUILT = "check not built yet (work in progress; see DESIGN.md for the planned model-checking design)"
man = dict(
    version=1,
    setup_cmd="./setup.sh",
    hooks=dict(guard="overlay", enable="no source hooks: instrumentation (sync/atomic shims, coverage counters) is injected at build time with `go build -overlay` / `-cover` from generated copies of the current /repo tree; /repo contains only unguarded fix: commits",
               baseline_off_cmd="cd /repo && GOFLAGS=-mod=mod GOPROXY=off go test -vet=off -count=1 ./...", source_commits=[], add_only=True),
    engines=[
        dict(name="common", path="engine/common", serves_properties=sorted(CHECKS), kind_free_text="sharded bounded exhaustive enumerator with process isolation, crash/hang attribution, 5x reproduction, known-finding bookkeeping, evidence writer"),
        dict(name="sqlgen", path="sqlgen", serves_properties=[p for p in ["C01","C03","C06","C07","C11","C12","C13","C14","C15","C16"] if p in CHECKS], kind_free_text="model grammar: text + prescribed tree + features + name roles; canonical tree dumper"),
    ],
    checks=[CHECKS[k] for k in sorted(CHECKS)],
    notes="Known findings are listed in known_findings.txt (committed, read-only at run time). Each check prints KNOWN-FINDING lines for listed signatures and exits 1 with a VIOLATION line only for unlisted ones.",
    not_applicable=[dict(property_id=p, reason=NOT_BUILT) for p in ALL if p not in CHECKS],
)
json.dump(man, open(os.path.join(ROOT, "MANIFEST.json"), "w"), indent=1)
print("MANIFEST.json:", len(CHECKS), "checks,", len(man["not_applicable"]), "not claimed")
