#!/usr/bin/env python3
"""Generates /verif/MANIFEST.json from the table below (one entry per built check)."""
import json, os
ROOT = os.path.dirname(os.path.dirname(os.path.abspath(__file__)))
ALL = ["C%02d" % i for i in range(1, 21)]
CHECKS = {}

def check(pid, level, technique, text, note, design, engine="engine/common + sqlgen"):
    CHECKS[pid] = dict(property_id=pid, quick_cmd="./check %s quick" % pid, thorough_cmd="./check %s thorough" % pid,
        evidence_file="evidence/%s.json" % pid, replay_cmd_template="./check %s --replay {path}" % pid, engine=engine,
        level_claimed=dict(category=level, text=text, design_ref=design), level_note=note, technique=technique)

check("C03", "exploration",
      "bounded exhaustive enumeration of a model grammar (small-scope), executed on the real parser, reference-model tree comparison",
      "Every statement derivable from the model grammar within the stated bounds (all expression trees with <=2 operator nodes over the full operator catalogue, <=3/4 over precedence-class representatives, every expression hole x every representative, all clause subsets, nesting depth 1/2), in minimal and full parenthesisation and under 4 layouts, is parsed by gosqlx.Parse and the returned tree is compared field by field with the tree the generator prescribes.",
      "Trusted: the reference precedence table and expected-tree builders in sqlgen (dialect-dependent operator mixes are always parenthesised); the canonical dumper's two documented normalisations; small-scope hypothesis above the bounds.",
      "DESIGN.md §2.2, §3 C03")


check("C04", "exploration",
      "bounded exhaustive enumeration of lexeme sequences x separator classes against an independent reference lexer",
      "All ordered pairs of a 195-lexeme catalogue x all separator classes, all triples over a reduced alphabet, every lexeme at both ends of the input, every lexeme next to every hostile byte, all fragment strings up to length 3/4, all unterminated openers: kinds and decoded values, exactly one EOF, exact comment capture, invariance under separators and keyword case, quoted identifiers never re-typed (also through the parser), unterminated literals rejected.",
      "Trusted: the reference maximal-munch lexer in lexgen (gives no verdict on constructs with two defensible readings); Tokenize and TokenizeContext are both observed.",
      "DESIGN.md §2.3, §3 C04", engine="engine/common + lexgen")
check("C05", "exploration",
      "bounded exhaustive enumeration of layouts with generator-known positions; every token boundary as an error-injection point",
      "The C04 space plus multi-line layouts; every token, comment and EOF must be 1-based, ordered, inside the input, with exact line everywhere and exact column on ASCII tab-free lines; a rejected byte and a stray ']' inserted at every token boundary of sqlgen statements must be reported at their own position.",
      "Trusted: position bookkeeping of lexgen.Builder; columns are only asserted where the property asserts them.",
      "DESIGN.md §2.3, §3 C05", engine="engine/common + lexgen + sqlgen")
check("C06", "exploration",
      "bounded exhaustive enumeration of accepted statements x all serialiser option sets; round-trip and idempotence oracle on the real code",
      "Every accepted statement of the model grammar and every accepted corpus file is serialised by AST.SQL, AST.Format (72 option sets + 2 presets), the CLI SQLFormatter (24), gosqlx.Format (12) and formatter.Format (8); the text must re-parse to an equal tree (up to keyword/operator-word/function/type letter case) and a second pass must return it unchanged.",
      "Trusted: sqlgen canonical dump; identical serialisations within one family are judged once.",
      "DESIGN.md §3 C06")
check("C07", "exploration",
      "bounded exhaustive enumeration of valid, corrupted, multi-statement and lexically invalid inputs through all 16 entry points; differential oracle",
      "Every generated statement, every single-token deletion / duplication / replacement (one token of every lexical kind) of a spread of them, all scripts of <=3 items with stray semicolons, comment placements and lexically invalid inputs go through 16 entry points; acceptance, canonical tree and structured error code must agree with gosqlx.Parse; all batches of length <=3 over 7 items must equal the individual calls and fail at the first failing index.",
      "Trusted: canonical dump; ParseWithRecovery compared through its first error.",
      "DESIGN.md §3 C07")
check("C08", "model_checking",
      "explicit-state search over all call histories up to depth 4/5 on real Parser / Tokenizer objects, reference configuration model in lock-step, probe-based differential oracle",
      "All histories over a 14-operation parser alphabet and an 11-operation tokenizer alphabet (parse variants, failures, cancellations, depth-limit input, options, Reset, Release, Put) are executed on a fresh instance; afterwards a probe set whose answers depend on every field of the instance (including where the context is polled and where a mid-statement cancellation lands) must answer exactly as a new instance with the model's configuration, and after Reset/Put the instance must equal a new one field by field (unexported fields included); pool hand-out histories (9 pool operations incl. releasing a recovery result twice, depth 5/6): no instance is ever owned by two holders and every instance handed out answers like a new one.",
      "Trusted: the two-field configuration model (strict, dialect); 'same pointer after Put' stands for the next pool holder.",
      "DESIGN.md §2.4, §3 C08", engine="engine/common (history enumeration)")
check("C09", "model_checking",
      "exhaustive (pooled type x field x release path) obligations by reflection + explicit-state search over parse/hold/release histories up to depth 4/5 with snapshot and pointer-disjointness invariants",
      "Every pooled type and release path found in pool.go at check time: every field filled, released, re-obtained (pointer identity asserted) and compared with a new object incl. backing arrays; all histories over 24 operations (parse / hold / release, error paths of parser and tokenizer, formatters, validators, linter, extractors, scanner, recovery, tokenizer borrow / return) on 6 queries sharing pooled shapes: held trees/tokens/results never change, live trees share no pooled node, no node is put twice or pooled while live; every contiguous sub-slice of a held token list through every token-consuming entry point leaves the whole backing array (spare capacity included) as it was.",
      "Trusted: reflection-based fill; GC disabled inside a history so the pools hand objects back deterministically; the cross-goroutine clause is C10's.",
      "DESIGN.md §2.4, §3 C09", engine="engine/common (history enumeration)")
check("C10", "exploration",
      "stateless model checking of the real code: controlled scheduler at every sync / sync-atomic operation (build-time overlay shims), DFS over all schedules within a preemption bound and all sync.Pool answers within a deviation bound; separate free-running -race pass",
      "122 small colliding harnesses (metrics recording, pairs of public operations on shared pools, hold-vs-release, first use of lazily built globals) are explored over every interleaving with <=2 (quick) / <=3 (thorough) preemptions and <=1 / <=2 pool deviations (complete for the two-thread metrics harnesses); each call must return what it returns alone, metrics totals must equal a counter/min/max model, no deadlock; the same bodies run free under -race (reported as sampling).",
      "Trusted: sync shims model Mutex/RWMutex/Once/WaitGroup/Pool by their contracts; atomics are sequentially consistent; plain-memory races between two sync points are only seen by the -race pass.",
      "DESIGN.md §2.5, §3 C10", engine="engine/sched + engine/shim + tools/overlaygen")
check("C11", "fault_enumeration",
      "fault enumeration: a counting context fires at every poll k in [0,P] of every input x entry point, with both error kinds",
      "For each input (one per poll-site context, every clause option of the model grammar, long token lists; thorough: every expression hole) and each of gosqlx.ParseWithContext, Tokenizer.TokenizeContext, Parser.ParseContext on a default and on a configured (strict, mysql) parser the number of polls P is measured, then the context fires at every k with Canceled and DeadlineExceeded: no value, errors.Is(err, ctxErr), <=2 further polls; a never-firing context gives the context-free result; the instance afterwards answers the C08 probes like a new one.",
      "Trusted: the library only polls Err() (checked); CountCtx keeps Done()/Deadline() consistent.",
      "DESIGN.md §2.6, §3 C11", engine="engine/common + checks/c08/probe")
check("C12", "exploration",
      "bounded exhaustive enumeration of semicolon-separated scripts over valid and corrupted segments and of token soup; differential oracle against strict parsing",
      "All scripts of <=2 segments over 9 valid statements and all their failing corruptions, <=3 over the valid statements + 14 corruptions, <=5/6 over a 5-segment pool, with/without trailing semicolon, and every rejected proper prefix of every clause-option / DML / DDL statement of the model grammar before three kinds of follower and between neighbours: recovery terminates, reports an error iff strict parsing fails, returns exactly the strict trees of the well-formed segments in order, one error per malformed segment naming a token inside it (by token index and by reported column); every single-token corruption inside every representative expression before a follower and between neighbours; all lexeme sequences of length <=3/4 over 24 lexemes for termination and the iff clause.",
      "Trusted: a segment is well-formed iff gosqlx.Parse accepts it alone; token counting self-checked at run time.",
      "DESIGN.md §3 C12")
check("C14", "exploration",
      "exhaustive (node type x node-holding field) obligations generated from the current source + bounded exhaustive tree enumeration; reflection reachability vs ast.Inspect",
      "Every struct type of pkg/sql/ast with a Children method (listed from the source at check time) x every field that can hold a node, populated alone with tagged content, plus every tree of the model grammar, left-deep operator / UNION chains of every length 2..40, around 64..1024 and up to 1200 operands, and every accepted corpus file: the multiset of nodes ast.Inspect yields must equal the multiset reachable by reflection through exported fields.",
      "Trusted: node identity by type + canonical dump; all-zero nodes ignored on both sides.",
      "DESIGN.md §3 C14", engine="engine/common + tools/astreg + sqlgen")
check("C15", "exploration",
      "bounded exhaustive enumeration of statements whose generator records every identifier with its role; set-equality oracle",
      "Every SELECT/DML/MERGE statement of the model grammar: ExtractTables/TablesQualified/Columns/ColumnsQualified/Functions/Metadata must equal the sets of names the generator placed in table / column / function positions, duplicate-free, identical across layouts, also for chains of up to 500 operands and sub-queries nested 99 deep, and for every representative statement extracted after another one was parsed and released (recycled nodes); a missing name is attributed to the tree position where it is written.",
      "Trusted: disjoint name families per role; unqualified table variant compared on the last component.",
      "DESIGN.md §3 C15")
check("C17", "exploration",
      "bounded exhaustive enumeration of multi-line texts over a hostile line alphabet through every rewriter and rule; token-preservation, fixed-point and rule-model oracles",
      "All texts of <=3 (quick) / <=4 (thorough) lines over a 30-fragment line alphabet (identifiers that begin or end with a keyword, non-ASCII text incl. a supplementary-plane character in literals and comments, keywords of every length 2..12 in lower and mixed case, indentation in every tab / space order, multi-line literals and comments containing keywords, blanks and quotes; quoted identifiers spelled like keywords; CRLF) through each auto-fix, the CLI --auto-fix sequence and the LSP formatting action: token sequence and comment texts preserved up to keyword case, second application changes nothing, re-lint is clean, each layout rule reports a line iff the generator's three-valued model says so, locations exist.",
      "Trusted: the generator's lexical-state model of each rule's documented definition (three-valued: must / must-not / either).",
      "DESIGN.md §3 C17")
check("C19", "fault_enumeration",
      "exhaustive enumeration of CLI scenarios (file sets x flags) with an in-process library oracle + fault enumeration: RLIMIT_FSIZE at every byte offset (short write and kill) and strace fault/kill injection at every system call of the in-place writers",
      "The gosqlx binary built from the working tree runs in isolated scratch directories over all file-class sets (<=3 files), stdin and inline input, every flag and flag pair of format / validate / lint / parse: exit status iff the library accepts, check-only modes modify nothing, stdout vs -i vs --check consistent (a run given --check together with -i is a check-only run), JSON/SARIF well-formed and naming exactly the rejected inputs, every way of naming inputs to validate (paths, quoted glob patterns, directories with -r, alone and in ordered pairs) is judged by the files it stands for, lint -r over existing / missing directories and good / malformed patterns is judged by linter.LintDirectory, what a multi-file run writes or prints for one file equals the single-file run (including after files the formatter cannot render); for format -i and lint --auto-fix every write-failure point leaves the original or the complete new file.",
      "Trusted: RLIMIT_FSIZE / ptrace / strace injection semantics of this kernel.",
      "DESIGN.md §2.6, §3 C19", engine="engine/common + tools/fsize")


check("C01", "exploration",
      "bounded exhaustive enumeration of byte strings, lexeme sequences, parser-token sequences, prefixes and single-token corruptions through every public entry point, in isolated worker processes (fatal errors and hangs attributed to the running case)",
      "All strings of <=3/4 fragments over a 37-fragment lexical and a 14-fragment hostile alphabet, all lexeme sequences of length <=3/4, all parser-token sequences of length <=2 over every token type (<=3 over 50 core types) with and without EOF and with short/long position mappings, every token prefix of every generated statement, byte prefixes of corpus files, single-token corruptions: about 60 entry points per text (every dialect, strict mode; serialisers, extractors, scanners, linter and fixers on top). Oracle: the call returns, no panic, the worker neither dies nor goes silent.",
      "Trusted: worker isolation with RLIMIT_AS 3 GiB and 64 MiB max stack; a hang is 120 s without progress.",
      "DESIGN.md §2.1, §3 C01", engine="engine/common + lexgen + sqlgen")
check("C13", "exploration",
      "bounded exhaustive enumeration of rejected inputs (token corruptions, lexical fragment strings, limit violations) through 10 failing-capable entry points; structural oracle on the returned error",
      "Every rejected input must expose an *errors.Error through errors.As with a documented code of the family of the stage that rejected it (tokenizer E1xxx / parser E2xxx, dedicated limit codes), a non-empty message, a location inside the input when set, identical (code, message, location) on a second call, and the same answers when the rejected input is followed - on one Parser object and inside one recovery call - by a statement exactly at the nesting limit and by itself again, and with context-taking calls (context done at entry, deadline passed, cancelled mid-statement), a recovering parse or a position-less parse in between.",
      "Trusted: stage = whether tokenizer.Tokenize alone rejects the input.",
      "DESIGN.md §3 C13", engine="engine/common + lexgen + sqlgen")
check("C16", "exploration",
      "bounded exhaustive enumeration payload x position x wrapper x layout x threshold x API; per-API canonical-answer oracle",
      "18 payloads (10 documented ones, 4 other spellings, 4 nestings of one call in another's arguments) in every expression hole; UNION probes (NULL columns, 9 system tables) x 8 hosts x 3 spellings; of the model grammar (conditions also as AND/OR/NOT operands, in parentheses, nested three levels, next to sibling clauses, in set operations and scripts; thorough: inside EXISTS sub-queries) under 3 layouts, 4 severity thresholds and 3 scanner APIs: documented class/severity in the canonical position, superset of the canonical findings everywhere else, layout invariance, threshold = filter, counters = list, tree unchanged, reused scanner = new scanner (also with its threshold field re-assigned between scans, every ordered pair), results kept by the caller are not modified by later scans.",
      "Trusted: closure is judged per API against that API's own canonical answer.",
      "DESIGN.md §3 C16")
check("C18", "model_checking",
      "explicit-state search over all framed JSON-RPC message histories up to depth 3/4 (+1 behind didOpen) on a fresh real server, reference document model (UTF-16 clamping arithmetic) in lock-step; exhaustive single/paired edit ranges on small documents; position sweep (every request kind at every line / character up to the byte length of the longest line + 2 on 10 documents)",
      "61-message alphabet (lifecycle, reserved `$/` and unknown method names as requests and as notifications, document notifications without a params member, sync with in-range / past-end / inverted / negative ranges over ASCII and non-ASCII text, every request kind at valid / far / negative positions, malformed bodies and headers): the server never dies, output frames are exact, one response per request id and none for notifications, the document mirror equals the model after every in-contract history, last diagnostics carry the model's version / count / line.",
      "Trusted: the reference position model; each history runs far below the rate limiter window.",
      "DESIGN.md §2.4, §3 C18", engine="engine/common (history enumeration)")


check("C02", "exploration",
      "graph search over the parser's call graph built from the current source (every cycle must pass a recognised depth guard; every recursive function must be driven by a nesting family) + bounded exhaustive nesting-depth enumeration with measured stack growth + boundary enumeration of the size and token limits",
      "Static: strongly connected components of the typed call graph of pkg/sql/parser and pkg/sql/tokenizer with guarded edges removed (guard = depth++ / limit test / return, recognised per edge). Dynamic: 3829 nesting families (wrapper production x holding clause) at every depth 1..130 and 200, 500, 1000 (thorough: 10^4, 10^5 and the largest depth the limits allow), stack growth measured through a probing context; inputs of MaxInputSize and MaxTokens -1/0/+1 in several shapes through 3 entry points.",
      "Trusted: go/types call graph (direct calls + intra-library dynamic edges of callgraph -algo=cha in thorough); guard recognition is syntactic; a family is recursive iff its measured stack grows with depth.",
      "DESIGN.md §2.7, §3 C02", engine="engine/cgraph + engine/common")

check("C20", "exploration",
      "exhaustive enumeration of (input family x entry point) with a deterministic cost measure (basic-block execution counts of the library and the standard packages it leans on + allocated bytes, read from -cover counters of a build of the current tree; no clock) over a doubling ladder of sizes; growth-exponent oracle with culprit localisation",
      "88 (thorough 89) input families (long lists, chains, nestings, long lexemes, literals with escapes, quoted identifiers, number forms, runs of first / second words of two-word keywords, identifiers and strings in typographic quotes and back-ticks, many lines / comments / statements, n statements of each of 19 statement kinds, repeated findings) x 15 entry points (Tokenize, Parse, ParseWithRecovery, Validate, AST.SQL, AST.Format readable/compact, tree scan, text scans, LintString, Extract*, gosqlx.Format, formatter.FormatString, the CLI SQLFormatter) at n = 8..64 step 2 and 2^4..2^14 (thorough: up to 10 MiB / 1M tokens for tokenize and parse): total block count, every single block and allocated bytes must not grow by more than 2^1.5 per doubling over two consecutive doublings once above 10^5; the signature names the function holding the steepest block.",
      "Trusted: block counts as a proxy for time (cost hidden inside assembly routines of the standard library is invisible: documented mutant M4); a calibration loop of known length is read back exactly at every start; families are hand-written.",
      "DESIGN.md §2.8, §3 C20", engine="engine/common + checks/c20 (cover-counter decoder)")

NOT_BUILT = "check not built yet (work in progress; see DESIGN.md for the planned model-checking design)"
man = dict(
    version=1,
    setup_cmd="./setup.sh",
    hooks=dict(guard="overlay", enable="no source hooks: instrumentation (sync/atomic shims, coverage counters) is injected at build time with `go build -overlay` / `-cover` from generated copies of the current /repo tree; /repo contains only unguarded fix: commits",
               baseline_off_cmd="cd /repo && GOFLAGS=-mod=mod GOPROXY=off go test -vet=off -count=1 ./...", source_commits=[], add_only=True),
    engines=[
        dict(name="common", path="engine/common", serves_properties=sorted(CHECKS), kind_free_text="sharded bounded exhaustive enumerator with process isolation, crash/hang attribution, 5x reproduction, known-finding bookkeeping, evidence writer"),
        dict(name="sqlgen", path="sqlgen", serves_properties=[p for p in ["C01","C03","C06","C07","C11","C12","C13","C14","C15","C16"] if p in CHECKS], kind_free_text="model grammar: text + prescribed tree + features + name roles; canonical tree dumper"),
    ],
    checks=[CHECKS[k] for k in sorted(CHECKS)],
    notes="Known findings are listed in known_findings.txt (committed, read-only at run time). Each check prints KNOWN-FINDING lines for listed signatures and exits 1 with a VIOLATION line only for unlisted ones.",
    not_applicable=[dict(property_id=p, reason=NOT_BUILT) for p in ALL if p not in CHECKS],
)
json.dump(man, open(os.path.join(ROOT, "MANIFEST.json"), "w"), indent=1)
print("MANIFEST.json:", len(CHECKS), "checks,", len(man["not_applicable"]), "not claimed")
