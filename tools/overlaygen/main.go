// overlaygen generates the `go build -overlay` description used by the C10 check.
//
// From the CURRENT /repo tree (plus, if given, the files of an already existing
// overlay such as a VERIF_OVERLAY mutant) it writes, under -out, a copy of every
// non-test .go file below /repo/pkg that imports "sync" or "sync/atomic" with those
// two import paths redirected to the shim packages
//
//	github.com/ajitpratap0/GoSQLX/pkg/verifshim/vsync    (keeps the local name sync)
//	github.com/ajitpratap0/GoSQLX/pkg/verifshim/vatomic  (keeps the local name atomic)
//
// and an overlay.json that maps the /repo paths to the copies AND supplies the shim
// packages and the scheduler as virtual packages below /repo/pkg/verifshim/ from
// the sources in /verif/engine.  Only the import path literal is edited (in place,
// on the same line), so line numbers — and therefore panic sites and race-report
// frames — are those of the original file.  /repo itself is never written.
package main

import (
	"encoding/json"
	"flag"
	"fmt"
	"go/parser"
	"go/token"
	"os"
	"path/filepath"
	"sort"
	"strconv"
	"strings"
)

const shimBase = "github.com/ajitpratap0/GoSQLX/pkg/verifshim/"

var redirect = map[string][2]string{ // import path -> (shim package, local name)
	"sync":        {shimBase + "vsync", "sync"},
	"sync/atomic": {shimBase + "vatomic", "atomic"},
}

type overlay struct {
	Replace map[string]string
}

func die(f string, a ...any) {
	fmt.Fprintf(os.Stderr, "overlaygen: "+f+"\n", a...)
	os.Exit(1)
}

// rewrite returns the source with the two imports redirected, and whether anything changed.
func rewrite(name string, src []byte) ([]byte, bool) {
	fset := token.NewFileSet()
	f, err := parser.ParseFile(fset, name, src, parser.ImportsOnly)
	if err != nil {
		die("cannot parse %s: %v", name, err)
	}
	type edit struct {
		from, to int
		text     string
	}
	var edits []edit
	for _, im := range f.Imports {
		p, _ := strconv.Unquote(im.Path.Value)
		r, ok := redirect[p]
		if !ok {
			continue
		}
		text := strconv.Quote(r[0])
		if im.Name == nil {
			text = r[1] + " " + text
		}
		edits = append(edits, edit{fset.Position(im.Path.Pos()).Offset, fset.Position(im.Path.End()).Offset, text})
	}
	if len(edits) == 0 {
		return src, false
	}
	sort.Slice(edits, func(a, b int) bool { return edits[a].from > edits[b].from })
	out := append([]byte{}, src...)
	for _, e := range edits {
		out = append(out[:e.from], append([]byte(e.text), out[e.to:]...)...)
	}
	return out, true
}

func main() {
	repo := flag.String("repo", "/repo", "library tree")
	verif := flag.String("verif", "/verif", "verification tree")
	in := flag.String("in", "", "existing overlay file to merge (may be empty)")
	out := flag.String("out", "", "output directory (overlay.json is written there)")
	flag.Parse()
	if *out == "" {
		die("-out is required")
	}
	res := overlay{Replace: map[string]string{}}
	src := map[string]string{} // /repo path -> file holding the content to instrument

	pkgRoot := filepath.Join(*repo, "pkg")
	filepath.Walk(pkgRoot, func(p string, fi os.FileInfo, err error) error {
		if err != nil {
			return nil
		}
		if fi.IsDir() {
			if b := fi.Name(); b == "cbinding" || b == "testdata" || b == "verifshim" {
				return filepath.SkipDir
			}
			return nil
		}
		if strings.HasSuffix(p, ".go") && !strings.HasSuffix(p, "_test.go") {
			src[p] = p
		}
		return nil
	})
	if *in != "" {
		b, err := os.ReadFile(*in)
		if err != nil {
			die("cannot read %s: %v", *in, err)
		}
		var ov overlay
		if err := json.Unmarshal(b, &ov); err != nil {
			die("bad overlay %s: %v", *in, err)
		}
		for k, v := range ov.Replace {
			if !filepath.IsAbs(k) {
				k = filepath.Join(filepath.Dir(*in), k)
			}
			k = filepath.Clean(k)
			if v != "" && !filepath.IsAbs(v) {
				v = filepath.Join(filepath.Dir(*in), v)
			}
			res.Replace[k] = v // passed through unless instrumented below
			inPkg := strings.HasPrefix(k, pkgRoot+string(filepath.Separator)) && !strings.Contains(k, "/cbinding/")
			if inPkg && strings.HasSuffix(k, ".go") && !strings.HasSuffix(k, "_test.go") {
				if v == "" {
					delete(src, k) // file deleted by the overlay
				} else {
					src[k] = v
				}
			}
		}
	}

	os.RemoveAll(filepath.Join(*out, "pkg"))
	var paths []string
	for k := range src {
		paths = append(paths, k)
	}
	sort.Strings(paths)
	n := 0
	for _, k := range paths {
		b, err := os.ReadFile(src[k])
		if err != nil {
			die("cannot read %s: %v", src[k], err)
		}
		nb, changed := rewrite(k, b)
		if !changed {
			continue
		}
		rel, _ := filepath.Rel(*repo, k)
		dst := filepath.Join(*out, rel)
		os.MkdirAll(filepath.Dir(dst), 0o755)
		if err := os.WriteFile(dst, nb, 0o644); err != nil {
			die("%v", err)
		}
		res.Replace[k] = dst
		n++
	}
	// virtual packages inside the library's module path
	for virt, dir := range map[string]string{"sched": "engine/sched", "vsync": "engine/shim/vsync", "vatomic": "engine/shim/vatomic"} {
		fs, _ := filepath.Glob(filepath.Join(*verif, dir, "*.go"))
		if len(fs) == 0 {
			die("no sources in %s", filepath.Join(*verif, dir))
		}
		for _, f := range fs {
			if strings.HasSuffix(f, "_test.go") {
				continue
			}
			res.Replace[filepath.Join(pkgRoot, "verifshim", virt, filepath.Base(f))] = f
		}
	}
	jb, _ := json.MarshalIndent(res, "", " ")
	os.MkdirAll(*out, 0o755)
	if err := os.WriteFile(filepath.Join(*out, "overlay.json"), jb, 0o644); err != nil {
		die("%v", err)
	}
	fmt.Fprintf(os.Stderr, "overlaygen: %d library files instrumented, %d overlay entries\n", n, len(res.Replace))
}
