#!/usr/bin/env python3
# tools/sizetable.py <quick-evidence-dir> <thorough-evidence-dir>: prints the rows of DESIGN.md §8.2 from evidence files.
import json, sys, os
q, t = sys.argv[1], sys.argv[2]
def fmt(n):
    if n is None: return "-"
    if n < 10000: return str(n)
    e = len(str(int(n))) - 1
    m = n / 10**e
    return "%.1f·10^%d" % (m, e)
def load(d, pid):
    p = os.path.join(d, pid + ".json")
    if not os.path.exists(p): return None
    return json.load(open(p))
SPACE = {
 "C01": "fragment / hostile / delimiter strings, lexeme soup, parser-token sequences (named and unnamed types, with / without EOF, short / long position maps), statement prefixes, corpus byte prefixes, token corruptions, length and depth ladders, saturation and after-failure histories x about 60 entry points, worker isolation",
 "C02": "call-graph cycles x guard recognition + nesting, ladder and chain families x every depth 1..130 + ladder; size / token limits x 16 entry points x padding shapes",
 "C03": "sqlgen.All x minimal / full parentheses x 4 layouts",
 "C04": "lexeme pairs / triples x separators, ends, keywords, comments, hostile bytes, fragments, unterminated openers",
 "C05": "C04 space + multi-line layouts + rejected byte / stray ] at every token boundary + primed tokenizers + lexical errors through 8 text entry points behind paddings",
 "C06": "accepted statements (+ lower / mixed-case and commented layouts) + corpus x 143 serialiser configurations (AST.SQL, AST.Format, CLI formatter, gosqlx.Format, formatter.Format)",
 "C07": "valid, corrupted, scripts, comments, lexical garbage, size and token limit boundaries x 16 entry points; batches; primed batches",
 "C08": "all histories depth <=4/5 over 17 parser ops and 11 tokenizer ops + 15 / 9 probes; one-operation sweep (model statements, utility statements, corpus files, prefixes); pool hand-out histories depth 5/6",
 "C09": "(type, field, path) obligations + all histories depth <=4/5 over 24 ops + release audit with 10 read-only consumers + token hand-back sweep",
 "C10": "122 harness instances, preemption bound 2/3, pool deviations 1/2, first-use order histories, + free-running -race pass (sampling)",
 "C11": "every poll k of every input x 4 entry points x 2 error kinds (+ 2 other context kinds); big inputs and limit boundaries with sparse polls",
 "C12": "scripts over valid + corrupted segments; prefixes; corruptions at every position of expressions and clause / DML / DDL statements; token soup; corpus prefixes",
 "C13": "rejected inputs (token corruptions, number positions, fragment strings, limits, statement-less pairs) x 10 entry points; reused-parser and reused-tokenizer histories",
 "C14": "(node type x field) obligations incl. ragged slices, dynamic types, discriminators + trees + chains + recycled-tree pairs + corpus",
 "C15": "SELECT / DML / MERGE statements x 6 extractors x 2 layouts; deep chains / nestings; recycled-node pairs",
 "C16": "payload x position x wrapper x 3 APIs x 3 layouts x 4 thresholds; UNION probes x hosts x spellings; scripts",
 "C17": "all <=3/4-line texts over a 30-fragment alphabet x 4 line-terminator forms x 8 rewriters + rule models",
 "C18": "64-message alphabet depth 3/4 (+1); all single / paired edits on 8 documents (with and without rangeLength); position sweep",
 "C19": "CLI scenarios (file sets x flags, argument forms, output files, path spellings) + RLIMIT_FSIZE at every byte (short write / kill) + strace faults",
 "C20": "88 families x 15 entry points x size ladder, block-count and allocation growth",
}
ROWS = []
for i in range(1, 21):
    pid = "C%02d" % i
    row = [pid]
    lvl = ""
    for d in (q, t):
        ev = load(d, pid)
        if not ev:
            row.append("-"); continue
        lvl = ev.get("level", "")
        c = ev["coverage"]
        s = "%s cases" % fmt(c.get("distinct_cases"))
        if c.get("states"): s += ", %s states" % fmt(c["states"])
        if c.get("transitions"): s += ", %s transitions" % fmt(c["transitions"])
        k = c.get("known_findings_hit") or []
        s += " / %d s" % round(ev.get("wall_s", 0))
        s += " / %d listed findings hit" % len(k) if k else ""
        if not c.get("exhaustive", True): s += " (NOT exhaustive)"
        row.append(s)
    ROWS.append("| %s | %s | %s | %s | %s |" % (row[0], lvl, row[1], row[2], SPACE[pid]))
print("\n".join(ROWS))
if len(sys.argv) > 3 and sys.argv[3] == "--write":
    import re
    p = os.path.join(os.path.dirname(os.path.abspath(__file__)), "..", "DESIGN.md")
    d = open(p).read()
    head = "| id | level | quick: cases / wall | thorough: cases / wall | space actually enumerated |\n|---|---|---|---|---|\n"
    a = d.index(head) + len(head)
    b = d.index("\n\n", a)
    open(p, "w").write(d[:a] + "\n".join(ROWS) + d[b:])
