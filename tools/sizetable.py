#!/usr/bin/env python3
# tools/sizetable.py <quick-evidence-dir> <thorough-evidence-dir>: prints the rows of DESIGN.md §8.2 from evidence files.
import json, sys, os
q, t = sys.argv[1], sys.argv[2]
def fmt(n):
    if n is None: return "-"
    if n < 10000: return str(n)
    e = len(str(int(n))) - 1
    m = n / 10**e
    return "%.1f·10^%d" % (m, e)
def load(d, pid):
    p = os.path.join(d, pid + ".json")
    if not os.path.exists(p): return None
    return json.load(open(p))
for i in range(1, 21):
    pid = "C%02d" % i
    row = [pid]
    lvl = ""
    for d in (q, t):
        ev = load(d, pid)
        if not ev:
            row.append("-"); continue
        lvl = ev.get("level", "")
        c = ev["coverage"]
        s = "%s cases" % fmt(c.get("distinct_cases"))
        if c.get("states"): s += ", %s states" % fmt(c["states"])
        if c.get("transitions"): s += ", %s transitions" % fmt(c["transitions"])
        k = c.get("known_findings_hit") or []
        s += " / %d s" % round(ev.get("wall_s", 0))
        s += " / %d listed findings hit" % len(k) if k else ""
        if not c.get("exhaustive", True): s += " (NOT exhaustive)"
        row.append(s)
    print("| %s | %s | %s | %s |" % (row[0], lvl, row[1], row[2]))
