#!/bin/bash
# tools/markfixed.sh <ID> <commit> <sig-regex> <description>: drop the finding lines of <ID> whose signature matches and add a fixed: line.
id="$1"; c="$2"; re="$3"; desc="$4"
cd "$(dirname "$0")/.."
n=$(grep -cE "^finding: property=$id sig=($re)( |$)" known_findings.txt)
grep -vE "^finding: property=$id sig=($re)( |$)" known_findings.txt > .work/kf.tmp && cp .work/kf.tmp known_findings.txt
echo "fixed:   property=$id $c $desc ($n finding signatures removed)" >> known_findings.txt
echo "removed $n finding lines for $id"
