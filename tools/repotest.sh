#!/bin/bash
# Runs the repository's own test suite in a given tree (default /repo) and reports
# whether anything beyond the two baseline always-fail tests (root-only permission tests) fails.
dir="${1:-/repo}"
export GOFLAGS=-mod=mod GOPROXY=off GOSUMDB=off GOTOOLCHAIN=local
cd "$dir" || exit 2
out=$(go test -vet=off -count=1 -timeout 25m ./... 2>&1)
fails=$(echo "$out" | grep -E "^--- FAIL|^FAIL|^panic:|cannot|\[build failed\]" | grep -v "TestValidator_PermissionDenied\|TestValidateInputFile_NoReadPermissions\|^FAIL$\|FAIL	github.com/ajitpratap0/GoSQLX/cmd/gosqlx/cmd	\|FAIL	github.com/ajitpratap0/GoSQLX/cmd/gosqlx/internal/validate	\|panic: runtime error: invalid memory address\|^panic: runtime error")
if [ -n "$fails" ]; then echo "SUITE-FAILS:"; echo "$fails"; exit 1; fi
echo "SUITE-OK (only the 2 baseline always-fail tests fail)"
