#!/bin/bash
# Runs the repository's own test suite in a given tree (default /repo) and reports
# whether anything beyond the two baseline always-fail tests (root-only permission tests) fails.
dir="${1:-/repo}"
export GOFLAGS=-mod=mod GOPROXY=off GOSUMDB=off GOTOOLCHAIN=local
cd "$dir" || exit 2
out=$(go test -vet=off -count=1 -timeout 25m ./... 2>&1)
fails=$(echo "$out" | grep -E "^--- FAIL|^FAIL|^panic:|cannot|\[build failed\]" | grep -v "TestValidator_PermissionDenied\|TestValidateInputFile_NoReadPermissions\|^FAIL$\|FAIL	github.com/ajitpratap0/GoSQLX/cmd/gosqlx/cmd	\|FAIL	github.com/ajitpratap0/GoSQLX/cmd/gosqlx/internal/validate	\|panic: runtime error: invalid memory address\|^panic: runtime error")
# throughput / wall-clock tests fail when the machine is busy (sub-agents running): list them apart
load=$(cut -d. -f1 /proc/loadavg)
if [ "$load" -gt 20 ]; then
  timing=$(echo "$fails" | grep -E "TestSustainedLoad|TestServer_RateLimit_ResetTiming|TestPerformanceRegression|Benchmark|pkg/sql/parser	|pkg/lsp	")
  fails=$(echo "$fails" | grep -vE "TestSustainedLoad|TestServer_RateLimit_ResetTiming|TestPerformanceRegression|pkg/sql/parser	|pkg/lsp	")
  if [ -n "$timing" ]; then echo "LOAD-SENSITIVE (load average $load; re-run when quiet):"; echo "$timing"; fi
fi
if [ -n "$fails" ]; then echo "SUITE-FAILS:"; echo "$fails"; exit 1; fi
echo "SUITE-OK (only the 2 baseline always-fail tests fail)"
