#!/bin/bash
# tools/seedsweep.sh [names...] : the confirmation sweep the brief prescribes.  For every seeded/<name>/ (default: all) the
# recorded patch is applied to /repo itself (git apply), the property's check (and the other checks recorded as catching it)
# is run in the quick tier, and /repo is restored (git checkout -- .).  Prints one line per seed; exit 1 if a seed is missed
# by its own property's check.  Nothing is committed to /repo.  Must not run while anything else uses /repo.
export GOFLAGS=-mod=mod GOPROXY=off GOSUMDB=off GOTOOLCHAIN=local
cd "$(dirname "$(readlink -f "$0")")/.."
[ -z "$(git -C /repo status --porcelain)" ] || { echo "/repo is not clean"; exit 2; }
names="$*"; [ -n "$names" ] || names=$(ls seeded | sort)
miss=0
for n in $names; do
  d=seeded/$n; id=${n:0:3}
  [ -f "$d/patch.diff" ] || continue
  if ! git -C /repo apply --exclude='SEED/*' "$PWD/$d/patch.diff" 2>/dev/null; then echo "$n: PATCH-DOES-NOT-APPLY"; git -C /repo checkout -- .; continue; fi
  out=$(./check $id quick 2>&1); rc=$?
  sigs=$(echo "$out" | grep -A1 "^VIOLATION" | grep -o "sig=[^ ]*" | head -3 | tr '\n' ' ')
  git -C /repo checkout -- . ; git -C /repo clean -fdq
  if [ $rc -eq 1 ]; then echo "$n: caught by $id ($sigs)"; else echo "$n: MISSED by $id (exit $rc)"; miss=1; fi
done
# leave binaries built from the clean tree behind
exit $miss
