#!/bin/bash
# tools/runall.sh [quick|thorough] : run every registered check once and print one summary line each.
tier="${1:-quick}"
cd "$(dirname "$0")/.."
for id in $(python3 -c "import json; print(' '.join(c['property_id'] for c in json.load(open('MANIFEST.json'))['checks']))"); do
  out=$(./check $id $tier 2>&1); rc=$?
  echo "$out" | grep -E "^VIOLATION|^UNREPRODUCED|BUILD-FAILED" | head -3
  echo "rc=$rc $(echo "$out" | tail -1)"
done
