#!/bin/bash
# tools/applyfix.sh <patch.diff> : apply a proposed repair to /repo, run the repository's suite, commit as "fix:" or roll back.
p="$1"
msg=$(grep '^#' "$p" | sed 's/^# \{0,1\}//' | grep -v "^Apply with" )
first=$(echo "$msg" | head -1)
case "$first" in fix:*) ;; *) echo "patch header must start with 'fix:'"; exit 2;; esac
cd /repo || exit 2
if ! git apply --check "$p" 2>/dev/null; then echo "DOES-NOT-APPLY: $p"; git apply --check "$p"; exit 3; fi
git apply "$p"
if ! gofmt -l $(git diff --name-only | grep '\.go$') | grep -q .; then :; else echo "gofmt issues"; gofmt -l $(git diff --name-only | grep '\.go$'); fi
if /verif/tools/repotest.sh; then
  git add -A && git commit -q -m "$msg" && echo "COMMITTED $(git rev-parse --short HEAD): $first"
else
  echo "SUITE FAILED -> rolled back"; git checkout -- . ; git clean -fdq; exit 1
fi
