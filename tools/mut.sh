#!/bin/bash
# tools/mut.sh <repo-file> <sed-expression> <ID> [tier]
# Runs a check against /repo with one file replaced by a sed-edited copy (via -overlay); /repo is not touched.
f="$1"; expr="$2"; id="$3"; tier="${4:-quick}"
d=$(mktemp -d /tmp/mut.XXXXXX)
cp "$f" "$d/$(basename $f)"
sed -i -E "$expr" "$d/$(basename $f)"
if cmp -s "$f" "$d/$(basename $f)"; then echo "MUTATION DID NOT CHANGE THE FILE"; rm -rf "$d"; exit 3; fi
diff <(cat "$f") "$d/$(basename $f)" | head -8
echo "{\"Replace\": {\"$f\": \"$d/$(basename $f)\"}}" > "$d/ov.json"
VERIF_OVERLAY="$d/ov.json" "$(dirname "$0")/../check" "$id" "$tier" | grep -v "^KNOWN-FINDING" | head -${MUT_LINES:-8}
rc=${PIPESTATUS[0]}
rm -rf "$d"
echo "exit=$rc"
