#!/bin/bash
# tools/seedverify.sh <ID> "<demo command, run in the worktree root>" [check ids...]
# Confirms an independently written property-breaking change: (1) demo passes on the clean tree, (2) patch applies and builds,
# (3) demo fails with the patch, (4) the repository's suite still passes with the patch; then runs the given checks (default: <ID>)
# against the patched sources through VERIF_OVERLAY and records everything in seeded/<ID>/meta.json.
id="$1"; demo="$2"; shift 2; checks="${*:-$id}"
export GOFLAGS=-mod=mod GOPROXY=off GOSUMDB=off GOTOOLCHAIN=local
name="${SEED_NAME:-$id}"; V=/verif; src="${SEED_SRC:-/tmp/seed/$id/SEED}"; dst=$V/seeded/$name; wt=/tmp/sv/$name
[ -f "$src/patch.diff" ] || { echo "no $src/patch.diff"; exit 2; }
mkdir -p "$dst" /tmp/sv; rm -rf "$dst"/*; cp -r "$src"/* "$dst"/ ; rm -f "$dst"/*.log
git -C /repo worktree remove --force "$wt" 2>/dev/null; git -C /repo worktree add -q --detach "$wt" HEAD || exit 2
cp -r "$src" "$wt/SEED"
cd "$wt"
clean_rc=0; ( eval "$demo" ) > /tmp/sv/$name.clean.log 2>&1 || clean_rc=$?
if ! git apply --exclude='SEED/*' "$dst/patch.diff" 2>/tmp/sv/$name.apply.log; then echo "PATCH DOES NOT APPLY to current HEAD"; cat /tmp/sv/$name.apply.log | head -5; applies=false; else applies=true; fi
build_rc=0; go build ./... > /tmp/sv/$name.build.log 2>&1 || build_rc=$?
mut_rc=0; ( eval "$demo" ) > /tmp/sv/$name.mut.log 2>&1 || mut_rc=$?
rm -rf "$wt/SEED"; find "$wt" -name 'zz_seed*_test.go' -delete
suite=$($V/tools/repotest.sh "$wt" 2>&1 | tail -4)
suite_ok=false; echo "$suite" | grep -q "SUITE-OK" && suite_ok=true
# overlay of the changed files for the checks
ov=/tmp/sv/$name.ov.json
python3 - "$wt" "$ov" <<'PY'
import subprocess, sys, json, os
wt, ov = sys.argv[1], sys.argv[2]
files = subprocess.run(["git","-C",wt,"diff","--name-only"],capture_output=True,text=True).stdout.split()
rep = {}
os.makedirs(ov+".d", exist_ok=True)
for f in files:
    if f.endswith(".go"):
        tgt = os.path.join(ov+".d", f.replace("/","__"))
        open(tgt,"wb").write(open(os.path.join(wt,f),"rb").read())
        rep["/repo/"+f] = tgt
json.dump({"Replace": rep}, open(ov,"w"))
print("overlay files:", list(rep))
PY
cd $V
results="{}"
for c in $checks; do
  out=$(VERIF_OVERLAY=$ov ./check $c quick 2>&1); rc=$?
  nv=$(echo "$out" | grep -c "^VIOLATION")
  first=$(echo "$out" | grep -A1 "^VIOLATION" | grep "sig=" | head -3 | sed 's/^ *//' | tr '\n' ';')
  echo "CHECK $c: exit=$rc violations=$nv $first"
  results=$(python3 -c "import json,sys; d=json.loads(sys.argv[1]); d[sys.argv[2]]={'exit':int(sys.argv[3]),'violation_lines':int(sys.argv[4]),'first_signatures':sys.argv[5]}; print(json.dumps(d))" "$results" "$c" "$rc" "$nv" "$first")
done
python3 - "$id:$name" "$demo" "$clean_rc" "$mut_rc" "$build_rc" "$suite_ok" "$applies" "$results" <<'PY'
import json, sys, subprocess
idname, demo, clean_rc, mut_rc, build_rc, suite_ok, applies, results = sys.argv[1:9]
id, name = idname.split(":")
props = {json.loads(l)["id"]: json.loads(l) for l in open("/verif/properties.jsonl")}
readme = ""
meta = {
  "property": id, "property_title": props[id]["title"],
  "written_by": "fresh sub-agent given only the property text and its own scratch worktree of /repo (nothing from /verif)",
  "base_commit": subprocess.run(["git","-C","/repo","rev-parse","--short","HEAD"],capture_output=True,text=True).stdout.strip(),
  "needs_to_manifest": "see README.md (written by the sub-agent)",
  "confirmed_by_lead": {
     "scratch_worktree": "/tmp/sv/%s (removed afterwards)" % name,
     "demo_command": demo,
     "demo_exit_on_clean_tree": int(clean_rc), "demo_exit_with_patch": int(mut_rc),
     "patch_applies": applies == "true", "go_build_exit_with_patch": int(build_rc),
     "repository_suite_passes_with_patch": suite_ok == "true",
  },
  "checks_run_against_it": json.loads(results),
}
json.dump(meta, open("/verif/seeded/%s/meta.json" % name, "w"), indent=1)
print("meta:", json.dumps(meta["confirmed_by_lead"]))
PY
git -C /repo worktree remove --force "$wt"; rm -rf /tmp/sv/$name.ov.json.d
