// Command fsize is the write-fault launcher of check C19.
//
//	fsize <bytes> err  <cmd> [args...]
//	fsize <bytes> kill <cmd> [args...]
//
// Both modes set RLIMIT_FSIZE (soft and hard) to <bytes> and run <cmd>.  With
// that limit the kernel truncates the write(2) that crosses the limit to a short
// write and answers the next one with EFBIG plus a SIGXFSZ for the writing thread.
//
//   - err:  SIGXFSZ is set to "ignored" and <cmd> is exec'ed: the writer sees a
//     short write followed by an error after exactly <bytes> bytes.  (A Go binary
//     behaves like that even without the ignore: the Go runtime catches SIGXFSZ
//     and drops it; the ignore makes the mode independent of the runtime.)
//   - kill: <cmd> runs as a ptrace tracee of this launcher; when the kernel
//     delivers the first SIGXFSZ to any of its threads, i.e. after exactly <bytes>
//     bytes have reached the file and before the writer learns anything, the
//     whole process is killed with SIGKILL.  This is the "process interrupted
//     mid-write" crash point.
//
// Exit status: that of <cmd>; 128+signal if it was killed by a signal; 125 for
// launcher errors.
package main

import (
	"fmt"
	"os"
	"os/exec"
	"os/signal"
	"runtime"
	"strconv"
	"syscall"
)

const ptraceOExitKill = 0x100000

func die(f string, a ...any) {
	fmt.Fprintf(os.Stderr, "fsize: "+f+"\n", a...)
	os.Exit(125)
}

func main() {
	if len(os.Args) < 4 {
		die("usage: fsize <bytes> err|kill <cmd> [args...]")
	}
	k, err := strconv.ParseUint(os.Args[1], 10, 63)
	if err != nil {
		die("bad byte count %q", os.Args[1])
	}
	mode := os.Args[2]
	path, err := exec.LookPath(os.Args[3])
	if err != nil {
		die("%v", err)
	}
	rl := syscall.Rlimit{Cur: k, Max: k}
	if err := syscall.Setrlimit(syscall.RLIMIT_FSIZE, &rl); err != nil {
		die("setrlimit: %v", err)
	}
	switch mode {
	case "err":
		signal.Ignore(syscall.SIGXFSZ)
		err := syscall.Exec(path, os.Args[3:], os.Environ())
		die("exec: %v", err)
	case "kill":
		os.Exit(supervise(path, os.Args[3:]))
	default:
		die("unknown mode %q", mode)
	}
}

// supervise runs the command as a tracee and turns the first SIGXFSZ into SIGKILL.
func supervise(path string, argv []string) int {
	runtime.LockOSThread() // all ptrace requests must come from the tracer thread
	cmd := exec.Command(path, argv[1:]...)
	cmd.Args = argv
	cmd.Stdin, cmd.Stdout, cmd.Stderr = os.Stdin, os.Stdout, os.Stderr
	cmd.SysProcAttr = &syscall.SysProcAttr{Ptrace: true}
	if err := cmd.Start(); err != nil {
		die("start: %v", err)
	}
	pid := cmd.Process.Pid
	var ws syscall.WaitStatus
	if _, err := syscall.Wait4(pid, &ws, 0, nil); err != nil {
		die("wait for exec stop: %v", err)
	}
	if !ws.Stopped() {
		die("tracee did not stop after exec")
	}
	if err := syscall.PtraceSetOptions(pid, syscall.PTRACE_O_TRACECLONE|syscall.PTRACE_O_TRACEFORK|syscall.PTRACE_O_TRACEVFORK|ptraceOExitKill); err != nil {
		die("ptrace setoptions: %v", err)
	}
	if err := syscall.PtraceCont(pid, 0); err != nil {
		die("ptrace cont: %v", err)
	}
	known := map[int]bool{pid: true}
	for {
		wpid, err := syscall.Wait4(-1, &ws, syscall.WALL, nil)
		if err == syscall.EINTR {
			continue
		}
		if err != nil {
			die("wait4: %v", err)
		}
		switch {
		case ws.Exited():
			if wpid == pid {
				return ws.ExitStatus()
			}
		case ws.Signaled():
			if wpid == pid {
				return 128 + int(ws.Signal())
			}
		case ws.Stopped():
			sig := ws.StopSignal()
			switch {
			case sig == syscall.SIGXFSZ:
				// the crash point: kill the whole thread group, nothing more runs
				syscall.Kill(pid, syscall.SIGKILL)
			case sig == syscall.SIGTRAP:
				// ptrace event stop (clone/fork) or exec trap: not a real signal
				syscall.PtraceCont(wpid, 0)
			case sig == syscall.SIGSTOP && !known[wpid]:
				// first stop of a newly cloned thread
				known[wpid] = true
				syscall.PtraceCont(wpid, 0)
			default:
				known[wpid] = true
				syscall.PtraceCont(wpid, int(sig))
			}
		}
	}
}
