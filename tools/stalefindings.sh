#!/bin/bash
# tools/stalefindings.sh <ID>... : lists the finding: lines of each property whose signature fires in neither tier on the current tree
# (development aid: such a line suppresses nothing today and would hide a regression of exactly that signature tomorrow).
export GOFLAGS=-mod=mod GOPROXY=off GOSUMDB=off GOTOOLCHAIN=local
cd "$(dirname "$(readlink -f "$0")")/.."
for id in "$@"; do
  : > .work/stale.$id.fired
  for tier in quick thorough; do
    ./check $id $tier 2>&1 | grep "^KNOWN-FINDING" | sed 's/.*sig=\([^ ]*\) .*/\1/' >> .work/stale.$id.fired
  done
  sort -u .work/stale.$id.fired -o .work/stale.$id.fired
  grep "^finding: property=$id " known_findings.txt | sed 's/.*sig=\([^ ]*\).*/\1/' | sort -u > .work/stale.$id.listed
  echo "== $id: listed $(wc -l < .work/stale.$id.listed), fired $(wc -l < .work/stale.$id.fired); never fired:"
  comm -13 .work/stale.$id.fired .work/stale.$id.listed
done
