#!/usr/bin/env python3
"""Development aid: from a VERIF_ANALYZE=1 run of C06 print (a) finding lines for (family:class, feature)
pairs whose feature never passes for that family, (b) the remaining unlisted signatures, compactly."""
import re, sys
out = open(sys.argv[1]).read().splitlines()
fail, pas = {}, {}
for l in out:
    m = re.match(r'\s+(\S+)\s+fail=(\d+) pass=(\d+)', l)
    if m:
        fail[m.group(1)] = int(m.group(2)); pas[m.group(1)] = int(m.group(3))
never = set(k for k in fail if '|' in k and ':' not in k.split('|')[0] and pas[k] == 0)
lines = []
for k in fail:
    fam_cls, feat = k.split('|', 1) if '|' in k else (k, '')
    if ':' in fam_cls and not feat.startswith('expr.nest:'):
        fam = fam_cls.split(':')[0]
        if fam + '|' + feat in never:
            lines.append((fam_cls, feat, fail[k]))
for fc, feat, n in sorted(lines):
    print("finding: property=C06 sig=%s@%s | every statement using %s fails this way under that serialiser (%d cases in the quick tier)" % (fc, feat, feat, n))
